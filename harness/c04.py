"""C04 — restriction = prolongation^T; coarse model conserves volumes.

Suites
  weights : `core.restrict_weights.py_func` on exact rationals == closed forms
            `Emg.wl / Emg.wr`.
  restrict: `core.restrict.py_func` (exact; weights obtained exactly as
            `_get_restriction_weights` does) == `Emg.restrict`, 7 patterns.
  solver  : `solver.restriction` (coarse grid, coarse model for all four
            anisotropy cases, coarse source) and `solver.prolongation` /
            `RegularGridProlongator` (float, computed bound) == the model.
  oracle  : (property, real code) R and P assembled by basis enumeration from
            the real functions: R = P^T on interior edges, P rows non-negative
            and summing to one, boundary untouched, addition, conservation.
"""
import warnings
from fractions import Fraction as Fr

import numpy as np

from harness import common, c02
from harness.exactnum import (Q, exact_fn, qarr, line, parse, fmt, from_float,
                              to_complex)

THEOREMS = [
    'Emg.wl_interior_eq_prolong_weight', 'Emg.wr_interior_eq_prolong_weight',
    'Emg.adj1_cell', 'Emg.adj1_node', 'Emg.adj1', 'Emg.adj3',
    'Emg.restrict_transpose_prolong_x', 'Emg.restrict_transpose_prolong_y',
    'Emg.restrict_transpose_prolong_z',
    'Emg.P1_node_weights_nonneg', 'Emg.P1_node_weights_sum_one',
    'Emg.P3_const', 'Emg.prolong_adds', 'Emg.prolong_keeps_boundary',
    'Emg.coarse_nodes_every_second', 'Emg.restrictParam_children',
    'Emg.restrictParam_conserves', 'Emg.restrict_weights_closed_form',
]

COARS = {0: (1, 1, 1), 1: (0, 1, 1), 2: (1, 0, 1), 3: (1, 1, 0),
         4: (1, 0, 0), 5: (0, 1, 0), 6: (0, 0, 1)}


def cshape(sc, shp):
    return tuple(n//2 if c else n for n, c in zip(shp, COARS[sc]))


def exact_weights(core, h, coars):
    """Mirror of solver._get_restriction_weights in exact arithmetic."""
    n = len(h)
    if not coars:
        z = np.empty(n+1, dtype=object)
        z[:] = Q(0)
        o = np.empty(n+1, dtype=object)
        o[:] = Q(1)
        return (z, o, z)
    rw = exact_fn(core, 'restrict_weights')
    nodes = np.empty(n+1, dtype=object)
    nodes[0] = Q(Fr(-3, 2))
    for i in range(n):
        nodes[i+1] = nodes[i] + h[i]
    cc = np.array([nodes[i] + h[i]/2 for i in range(n)], dtype=object)
    cnodes = nodes[::2]
    ch = np.array([cnodes[i+1] - cnodes[i] for i in range(len(cnodes)-1)],
                  dtype=object)
    ccc = np.array([cnodes[i] + ch[i]/2 for i in range(len(ch))], dtype=object)
    return rw(nodes, cc, h, cnodes, ccc, ch)


def suite_weights(ctx, core):
    rng = ctx.nprng('w')
    lines, exp = [], []
    for n in [2, 4, 6, 8, 10, 12] + ([16, 20, 24] if ctx.thorough else []):
        h = qarr((n,), rng, positive=True)
        wl, w0, wr = exact_weights(core, h, True)
        lines.append(f"rweights {n} | {line(h)}")
        exp.append(" ".join(fmt(v) for v in wl) + " | " +
                   " ".join(fmt(v) for v in wr))
        if any(v != Q(1) for v in w0):
            ctx.violation('central-weight', 'central restriction weight != 1',
                          {'n': n})
        ctx.count(key=('w', n))
    out = common.run_driver(lines)
    bad = [(l, o, e) for l, o, e in zip(lines, out, exp) if o != e]
    ctx.oblige('correspondence: core.restrict_weights.py_func (exact) == '
               'closed forms wl/wr', 'correspondence', not bad, str(bad[:1])[:400])
    return bad


def make_fields(rng, shp, cplx=True):
    sx, sy, sz = c02.shapes_of(*shp)
    return (qarr(sx, rng, cplx), qarr(sy, rng, cplx), qarr(sz, rng, cplx))


def suite_restrict(ctx, core):
    rng = ctx.nprng('r')
    restrict = exact_fn(core, 'restrict')
    cases, lines = [], []
    # (the quick tier takes the first two of each row: different cell counts
    # in the coarsened directions first, the square ones last)
    shapes = {0: [(4, 2, 6), (6, 4, 2), (2, 2, 2), (4, 4, 4)],
              1: [(5, 6, 2), (3, 2, 4), (3, 4, 4), (2, 2, 6)],
              2: [(6, 2, 4), (2, 5, 4), (4, 3, 4), (2, 5, 2)],
              3: [(2, 6, 5), (6, 2, 2), (4, 4, 3)],
              4: [(6, 2, 5), (4, 3, 3), (2, 3, 2)],
              5: [(2, 6, 2), (3, 4, 3), (5, 2, 3)],
              6: [(2, 5, 6), (3, 3, 4), (5, 2, 2)]}
    for sc, shps in shapes.items():
        for shp in (shps if ctx.thorough else shps[:2]):
            h = [qarr((n,), rng, positive=True) for n in shp]
            r = make_fields(rng, shp, cplx=bool((sc + sum(shp)) % 2))
            cases.append((sc, shp, h, r))
            lines.append(f"restrict {sc} {shp[0]} {shp[1]} {shp[2]} | " +
                         " | ".join(line(a) for a in [*h, *r]))
    out = common.run_driver(lines, jobs=8)
    bad = []
    for (sc, shp, h, r), o in zip(cases, out):
        cs = cshape(sc, shp)
        w = [exact_weights(core, h[d], COARS[sc][d]) for d in range(3)]
        cr = [np.full(s, Q(0), dtype=object) for s in c02.shapes_of(*cs)]
        try:
            restrict(*cr, *r, *w, sc)
        except Exception as e:
            bad.append((sc, shp, f'raised {type(e).__name__}: {e}'))
            continue
        exp = c02.parse_out(o, cs)
        nb = sum(int(sum(a != b for a, b in zip(g.ravel(), m.ravel())))
                 for g, m in zip(cr, exp))
        if nb:
            bad.append((sc, shp, f'{nb} entries differ'))
        ctx.count(key=('restrict', sc, shp))
    ctx.cov['restrict_exact_cases'] = len(cases)
    ctx.oblige('correspondence: core.restrict.py_func (exact, 7 patterns) == '
               'Emg.restrict', 'correspondence', not bad, str(bad[:3]))
    ctx.samples.append({'restrict_case': lines[0][:200]})
    return bad


def dyadic(rng, n, lo=1, hi=9):
    return rng.integers(lo, hi, n).astype(float) / 4.0


def real_problem(rng, shp, case, cplx=True):
    import emg3d
    hs = [dyadic(rng, n) for n in shp]
    grid = emg3d.TensorMesh(hs, origin=(0, 0, 0))
    props = {'property_x': rng.integers(1, 9, shp).astype(float)}
    if case in ('HTI', 'triaxial'):
        props['property_y'] = rng.integers(1, 9, shp).astype(float) + 0.5
    if case in ('VTI', 'triaxial'):
        props['property_z'] = rng.integers(1, 9, shp).astype(float) + 0.25
    props['mu_r'] = rng.integers(1, 5, shp).astype(float)
    model = emg3d.Model(grid, mapping='Conductivity', **props)
    sf = emg3d.Field(grid, frequency=1.0 if cplx else -1.0)
    vm = emg3d.models.VolumeModel(model, sf)
    return grid, hs, vm, sf


def suite_solver(ctx, core):
    """solver.restriction / solver.prolongation against the model (float)."""
    import emg3d
    from emg3d import solver as S
    rng = ctx.nprng('s')
    eps = np.finfo(float).eps
    bad = []
    lines, checks = [], []
    shapes = {0: (6, 4, 2), 1: (3, 4, 2), 2: (4, 3, 2), 3: (2, 4, 3),
              4: (4, 3, 3), 5: (3, 4, 2), 6: (2, 3, 4)}
    for sc in range(7):
        for rep in range(2 if ctx.thorough else 1):
            shp = shapes[sc] if rep == 0 else tuple(
                2*int(rng.integers(1, 4)) if c else int(rng.integers(2, 5))
                for c in COARS[sc])
            case = ['isotropic', 'HTI', 'VTI', 'triaxial'][(sc + rep) % 4]
            grid, hs, vm, sf = real_problem(rng, shp, case, cplx=bool(sc % 2))
            res = emg3d.Field(grid, frequency=sf._frequency)
            res.field[:] = rng.integers(-8, 9, res.field.size)
            if sc % 2:
                res.field[:] = res.field + 1j*rng.integers(-8, 9, res.field.size)
            try:
                cm, csf, cef = S.restriction(vm, sf, res, sc)
            except Exception as e:
                bad.append((sc, shp, f'restriction raised {e}'))
                continue
            cs = cshape(sc, shp)
            # coarse grid: every second node
            exp_h = [hs[d].reshape(-1, 2).sum(1) if COARS[sc][d] else hs[d]
                     for d in range(3)]
            if tuple(cm.grid.shape_cells) != cs or any(
                    not np.array_equal(a, b) for a, b in zip(cm.grid.h, exp_h)):
                bad.append((sc, shp, 'coarse grid'))
                ctx.violation('coarse-grid-not-every-second-node',
                              f'sc_dir={sc} shape {shp}: coarse widths '
                              f'{[list(x) for x in cm.grid.h]}',
                              {'sc_dir': sc, 'shape': shp})
                continue
            if np.any(cef.field != 0) or cef.field.dtype != sf.field.dtype:
                bad.append((sc, shp, 'coarse efield not zero / dtype'))
            # coarse model = sum of children, per component as exposed
            for name in ['eta_x', 'eta_y', 'eta_z', 'zeta']:
                fine = getattr(vm, name)
                coarse = getattr(cm, name)
                blocks = fine
                for d in range(3):
                    if COARS[sc][d]:
                        sh = list(blocks.shape)
                        sh[d:d+1] = [sh[d]//2, 2]
                        blocks = blocks.reshape(sh).sum(d+1)
                if coarse.shape != blocks.shape or not np.allclose(
                        coarse, blocks, rtol=8*eps, atol=0):
                    bad.append((sc, shp, f'coarse {name}'))
                    ctx.violation(
                        'coarse-parameter-not-sum-of-children',
                        f'{case} model, sc_dir={sc}, shape {shp}: coarse '
                        f'{name} is not the sum of its fine-cell children',
                        {'sc_dir': sc, 'shape': shp, 'case': case,
                         'parameter': name})
            # coarse source vs model restrict (float vs exact model)
            lines.append(
                f"restrict {sc} {shp[0]} {shp[1]} {shp[2]} | " +
                " | ".join(line(from_float(a)) for a in
                           [*hs, res.fx, res.fy, res.fz]))
            checks.append(('restrict', sc, shp, [csf.fx, csf.fy, csf.fz], cs))
            # prolongation
            ef = emg3d.Field(grid, frequency=sf._frequency)
            ef.field[:] = rng.integers(-8, 9, ef.field.size)
            ce = emg3d.Field(cm.grid, frequency=sf._frequency)
            ce.field[:] = rng.integers(-8, 9, ce.field.size)
            e0 = [ef.fx.copy(), ef.fy.copy(), ef.fz.copy()]
            try:
                S.prolongation(ef, ce, sc)
            except Exception as e:
                bad.append((sc, shp, f'prolongation raised {e}'))
                continue
            lines.append(
                f"prolong {sc} {shp[0]} {shp[1]} {shp[2]} | " +
                " | ".join(line(from_float(a)) for a in
                           [*hs, *e0, ce.fx, ce.fy, ce.fz]))
            checks.append(('prolong', sc, shp, [ef.fx, ef.fy, ef.fz], shp))
            # a "twin" mesh right afterwards: same shape, origin and extent,
            # other interior nodes (pairs of widths swapped) - the weights
            # must be those of the mesh at hand, not of an earlier one
            hs2 = []
            for d in range(3):
                h2 = hs[d].copy()
                if COARS[sc][d] and h2.size >= 2:
                    h2 = h2.reshape(-1, 2)[:, ::-1].ravel().copy()
                    if np.array_equal(h2, hs[d]):
                        h2[0], h2[1] = h2[0]*0.5, h2[1] + h2[0]*0.5
                else:
                    h2 = h2[::-1].copy()
                hs2.append(h2)
            grid2 = emg3d.TensorMesh(hs2, origin=(0, 0, 0))
            h2c = [hs2[d].reshape(-1, 2).sum(1) if COARS[sc][d] else hs2[d]
                   for d in range(3)]
            cgrid2 = emg3d.TensorMesh(h2c, origin=(0, 0, 0))
            ef2 = emg3d.Field(grid2, frequency=sf._frequency)
            ef2.field[:] = rng.integers(-8, 9, ef2.field.size)
            ce2 = emg3d.Field(cgrid2, frequency=sf._frequency)
            ce2.field[:] = rng.integers(-8, 9, ce2.field.size)
            e02 = [ef2.fx.copy(), ef2.fy.copy(), ef2.fz.copy()]
            try:
                S.prolongation(ef2, ce2, sc)
                lines.append(
                    f"prolong {sc} {shp[0]} {shp[1]} {shp[2]} | " +
                    " | ".join(line(from_float(a)) for a in
                               [*hs2, *e02, ce2.fx, ce2.fy, ce2.fz]))
                checks.append(('prolong-twin-mesh', sc, shp,
                               [ef2.fx, ef2.fy, ef2.fz], shp))
            except Exception as e:
                bad.append((sc, shp, f'prolongation (twin) raised {e}'))
            ctx.count(key=('solver', sc, shp, case))
    out = common.run_driver(lines, jobs=8)
    for (what, sc, shp, got, oshp), o in zip(checks, out):
        exp = c02.parse_out(o, oshp)
        for comp in range(3):
            ex = to_complex(exp[comp])
            if np.asarray(got[comp]).shape != ex.shape:
                bad.append((what, sc, shp, 'xyz'[comp], 'shape',
                            np.asarray(got[comp]).shape, ex.shape))
                continue
            err = np.abs(np.asarray(got[comp]) - ex)
            tol = 64*eps*(np.abs(ex) + 64)
            if err.size and (err > tol).any():
                idx = tuple(int(i) for i in np.argwhere(err > tol)[0])
                bad.append((what, sc, shp, 'xyz'[comp], idx,
                            complex(got[comp][idx]), complex(ex[idx])))
    ctx.cov['solver_level_cases'] = len(checks)
    ctx.oblige('correspondence: solver.restriction (grid, model, source) and '
               'solver.prolongation == model (float, 64 eps)',
               'correspondence', not bad, str(bad[:3])[:500])
    return bad


def suite_oracle(ctx, core):
    """R = P^T on interior edges etc., from the real (float) functions."""
    import emg3d
    from emg3d import solver as S
    rng = ctx.nprng('o')
    nviol0 = len(ctx.violations)
    shapes = {0: (4, 4, 4), 1: (3, 4, 4), 2: (4, 3, 4), 3: (4, 4, 3),
              4: (4, 3, 3), 5: (3, 4, 3), 6: (3, 3, 4)}
    pats = range(7) if ctx.thorough else [0, int(rng.integers(1, 4)),
                                          int(rng.integers(4, 7))]
    # every pattern twice: the second mesh has the same shape, origin and
    # extent as the first, but other interior nodes (no state may survive)
    runs = []
    for sc in pats:
        shp = shapes[sc]
        hs = [rng.uniform(0.5, 4.0, n) for n in shp]
        runs.append((sc, shp, hs))
        hs2 = []
        for d in range(3):
            h2 = hs[d].copy()
            if COARS[sc][d]:
                h2 = h2.reshape(-1, 2)[:, ::-1].ravel().copy()
            else:
                h2 = h2[::-1].copy()
            hs2.append(h2)
        runs.append((sc, shp, hs2))
        # the same pattern far from the origin (UTM-like coordinates, cells of
        # 20 .. 60 m): the weights depend on the widths only
        runs.append((sc, shp, [rng.uniform(20., 60., n) for n in shp],
                     (437250., 6731400., -2450.)))
    for run_ in runs:
        sc, shp, hs = run_[:3]
        org = run_[3] if len(run_) > 3 else (0, 0, 0)
        far = len(run_) > 3
        tol = 1e-7 if far else 1e-13
        grid = emg3d.TensorMesh(hs, origin=org)
        cgrid = emg3d.TensorMesh(
            [h.reshape(-1, 2).sum(1) if c else h
             for h, c in zip(hs, COARS[sc])], origin=org)
        wts = S._get_restriction_weights(grid, cgrid, sc)
        nf = grid.n_edges
        nc = cgrid.n_edges
        P = np.zeros((nf, nc))
        for j in range(nc):
            ce = emg3d.Field(cgrid, dtype=np.float64)
            ce.field[j] = 1.0
            ef = emg3d.Field(grid, dtype=np.float64)
            S.prolongation(ef, ce, sc)
            P[:, j] = ef.field
        R = np.zeros((nc, nf))
        for i in range(nf):
            r = emg3d.Field(grid, dtype=np.float64)
            r.field[i] = 1.0
            cr = emg3d.Field(cgrid, dtype=np.float64)
            core.restrict(cr.fx, cr.fy, cr.fz, r.fx, r.fy, r.fz, *wts, sc)
            R[:, i] = cr.field
        fi = interior_flat(grid)
        ci = interior_flat(cgrid)
        D = R[ci][:, fi] - P[fi][:, ci].T
        if np.abs(D).max() > tol:
            a, b = np.unravel_index(np.abs(D).argmax(), D.shape)
            ctx.violation(
                'restriction-not-transpose-of-prolongation',
                f'sc_dir={sc}, shape {shp}{", origin " + str(org) if far else ""}'
                f': |R - P^T| = {np.abs(D).max():.3g}'
                f' at interior coarse edge #{np.flatnonzero(ci)[a]} / fine '
                f'edge #{np.flatnonzero(fi)[b]}',
                {'sc_dir': sc, 'shape': shp, 'hx': list(hs[0]),
                 'hy': list(hs[1]), 'hz': list(hs[2]), 'origin': list(org)})
        if P.min() < -1e-15:
            ctx.violation('prolongation-weight-negative',
                          f'sc_dir={sc}: min weight {P.min()}',
                          {'sc_dir': sc, 'shape': shp})
        rs = P[fi].sum(1)
        # a row of an interior fine edge sums to one unless it touches a
        # boundary coarse edge (whose value is zero anyway): compare with the
        # sum over *all* coarse edges
        if np.abs(rs - 1).max() > tol:
            ctx.violation('prolongation-row-sum',
                          f'sc_dir={sc}: interior fine edge row sums range '
                          f'[{rs.min()}, {rs.max()}]',
                          {'sc_dir': sc, 'shape': shp})
        if np.abs(P[~fi]).max() > 0:
            ctx.violation('prolongation-writes-boundary',
                          f'sc_dir={sc}: boundary fine edges receive values',
                          {'sc_dir': sc, 'shape': shp})
        ctx.count(key=('oracle', sc, shp, far))
    ctx.oblige('monitor: real R (core.restrict) = real P^T '
               '(solver.prolongation) on interior edges; P rows >= 0, sum 1; '
               'boundary untouched', 'monitor',
               len(ctx.violations) == nviol0, '')


def interior_flat(grid):
    """Boolean mask over the flat edge vector [fx, fy, fz] (F-order)."""
    nx, ny, nz = grid.shape_cells
    mx, my, mz = c02.interior_masks((nx, ny, nz))
    return np.r_[mx.ravel('F'), my.ravel('F'), mz.ravel('F')]


def run(ctx):
    from emg3d import core
    ctx.lean('Emg3dVerif.Props.C04', THEOREMS)
    ctx.assumptions += [
        'RegularGridProlongator (NumPy searchsorted / fancy indexing) is '
        'compared in floating point with a 64-eps bound, not exactly',
    ]
    with warnings.catch_warnings():
        warnings.simplefilter('ignore')
        b1 = suite_weights(ctx, core)
        b2 = suite_restrict(ctx, core)
        b3 = suite_solver(ctx, core)
        suite_oracle(ctx, core)
    if (b1 or b2 or b3) and not ctx.violations:
        # widen the oracle before giving up
        ctx.tier = 'thorough'
        suite_oracle(ctx, core)
        ctx.tier = 'quick'
        if not ctx.violations:
            what = (b1[:1] or b2[:1] or b3[:1])
            ctx.violation(
                'model-correspondence-broken',
                'grid transfer no longer computes the function of the Lean '
                f'model ({str(what)[:300]}); R = P^T, row sums, signs and '
                'conservation still hold for all seven patterns',
                {'correspondence': 'restrict/prolong', 'first': str(what)[:600]},
                found_input=False)


def replay(ctx, rp):
    from emg3d import core
    suite_oracle(ctx, core)
    print('replay: oracle violations', len(ctx.violations))
    return 1 if ctx.violations else 0
