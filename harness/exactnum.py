"""Exact Gaussian rationals and a shimmed `np`, used to execute the Python
*source* of emg3d's numba kernels (`<kernel>.py_func.__code__`, read from the
current /repo tree) in exact arithmetic.

`Q(re, im)` over `fractions.Fraction`; floats appearing as literals in the
kernels (0.5, 0.25, 4., 2.) are dyadic and convert exactly.
"""
import types
from fractions import Fraction as Fr

import numpy as np


class Q:
    """Exact Gaussian rational re + i*im (optionally with a magnitude
    companion `mag` = sum of absolute values of all terms, for rounding
    bounds)."""
    __slots__ = ('re', 'im')

    def __init__(s, re=0, im=0):
        s.re = re if isinstance(re, Fr) else Fr(re)
        s.im = im if isinstance(im, Fr) else Fr(im)

    @staticmethod
    def c(x):
        if isinstance(x, Q):
            return x
        if isinstance(x, (complex, np.complexfloating)):
            return Q(Fr(float(x.real)), Fr(float(x.imag)))
        if isinstance(x, (int, Fr, np.integer)):
            return Q(Fr(int(x)) if not isinstance(x, Fr) else x)
        if isinstance(x, (float, np.floating)):
            return Q(Fr(float(x)))
        raise TypeError(type(x))

    def __pow__(s, n):
        if isinstance(n, np.ndarray):
            return NotImplemented
        n = int(n)
        if s.im:
            r = Q(1)
            for _ in range(abs(n)):
                r = r*s
            return r if n >= 0 else Q(1)/r
        return Q(s.re**n)

    def __add__(s, o):
        if isinstance(o, np.ndarray):
            return NotImplemented
        o = Q.c(o)
        return Q(s.re+o.re, s.im+o.im)
    __radd__ = __add__

    def __sub__(s, o):
        if isinstance(o, np.ndarray):
            return NotImplemented
        o = Q.c(o)
        return Q(s.re-o.re, s.im-o.im)

    def __rsub__(s, o):
        o = Q.c(o)
        return Q(o.re-s.re, o.im-s.im)

    def __mul__(s, o):
        if isinstance(o, np.ndarray):
            return NotImplemented
        o = Q.c(o)
        if not o.im and not s.im:
            return Q(s.re*o.re)
        return Q(s.re*o.re-s.im*o.im, s.re*o.im+s.im*o.re)
    __rmul__ = __mul__

    def __truediv__(s, o):
        if isinstance(o, np.ndarray):
            return NotImplemented
        o = Q.c(o)
        if not o.im:
            return Q(s.re/o.re, s.im/o.re)
        d = o.re*o.re+o.im*o.im
        return Q((s.re*o.re+s.im*o.im)/d, (s.im*o.re-s.re*o.im)/d)

    def __rtruediv__(s, o):
        return Q.c(o).__truediv__(s)

    def __neg__(s):
        return Q(-s.re, -s.im)

    def __pos__(s):
        return s

    def __eq__(s, o):
        try:
            o = Q.c(o)
        except TypeError:
            return NotImplemented
        return s.re == o.re and s.im == o.im

    def __hash__(s):
        return hash((s.re, s.im))

    # ordering: real numbers only
    def _r(s, o):
        o = Q.c(o)
        if s.im or o.im:
            raise TypeError('ordering of non-real numbers')
        return s.re, o.re

    def __lt__(s, o):
        a, b = s._r(o)
        return a < b

    def __le__(s, o):
        a, b = s._r(o)
        return a <= b

    def __gt__(s, o):
        a, b = s._r(o)
        return a > b

    def __ge__(s, o):
        a, b = s._r(o)
        return a >= b

    def __bool__(s):
        return bool(s.re) or bool(s.im)

    def __abs__(s):     # |re| + |im| (a norm; exact)
        return abs(s.re) + abs(s.im)

    def __complex__(s):
        return complex(float(s.re), float(s.im))

    def __repr__(s):
        return f"({s.re}+{s.im}i)"

    def conj(s):
        return Q(s.re, -s.im)


def fmt_fr(x):
    return str(x.numerator) if x.denominator == 1 else \
        f"{x.numerator}/{x.denominator}"


def fmt(v):
    v = Q.c(v)
    return f"{fmt_fr(v.re)},{fmt_fr(v.im)}"


def parse(s):
    a, b = s.split(',')
    return Q(Fr(a), Fr(b))


def line(a):
    """Fortran-ordered flat rendering of an object array."""
    return " ".join(fmt(v) for v in np.asarray(a, dtype=object).ravel(order='F'))


class NPShim:
    """`np` replacement inside the kernels: array constructors give object
    arrays of exact numbers; everything else is NumPy's."""

    def __getattr__(self, name):
        return getattr(np, name)

    @staticmethod
    def zeros(n, dtype=None):
        a = np.empty(n, dtype=object)
        a[...] = Q(0)
        return a

    @staticmethod
    def empty(n, dtype=None):
        return NPShim.zeros(n)

    @staticmethod
    def ones(n, dtype=None):
        a = np.empty(n, dtype=object)
        a[...] = Q(1)
        return a

    @staticmethod
    def array(lst, dtype=None):
        a = np.empty(len(lst), dtype=object)
        for i, v in enumerate(lst):
            a[i] = Q.c(v)
        return a


_cache = {}


def exact_fn(module, name, deps=('solve', 'blocks_to_amat'), extra=None):
    """Rebuild `module.name.py_func` with the shimmed globals."""
    key = (module.__name__, name)
    if key in _cache:
        return _cache[key]
    f = getattr(module, name)
    f = getattr(f, 'py_func', f)
    g = dict(f.__globals__)
    g['np'] = NPShim()
    g.update(extra or {})
    for n in deps:
        if hasattr(module, n):
            ff = getattr(module, n)
            ff = getattr(ff, 'py_func', ff)
            g[n] = types.FunctionType(ff.__code__, g, n)
    fn = types.FunctionType(f.__code__, g, name, f.__defaults__)
    _cache[key] = fn
    return fn


def qarr(shape, rng, cplx=True, lo=-9, hi=10, den=8, positive=False):
    """Random exact array with small numerators/denominators."""
    a = np.empty(shape, dtype=object)
    for idx in np.ndindex(*shape):
        re = Fr(int(rng.integers(lo, hi)), int(rng.integers(1, den)))
        im = Fr(int(rng.integers(lo, hi)), int(rng.integers(1, den))) \
            if cplx else Fr(0)
        if positive:
            re = abs(re) + Fr(1, int(rng.integers(1, den)))
            im = Fr(0)
        a[idx] = Q(re, im)
    return a


def from_float(a):
    """Exact object array from a float/complex array."""
    a = np.asarray(a)
    out = np.empty(a.shape, dtype=object)
    for idx in np.ndindex(*a.shape):
        out[idx] = Q.c(a[idx])
    return out


def to_complex(a):
    out = np.empty(a.shape, dtype=complex)
    for idx in np.ndindex(*a.shape):
        out[idx] = complex(a[idx])
    return out
