"""C06 — multigrid converges at a grid-size-independent rate (PARTIAL).

What is proved (Lean, `Props/C06.lean`, `Coercive.lean`, `Cycle.lean`): the
complete multigrid call is a consistent, *linear* stationary iteration —
exact solutions are fixed points for every trace, the call is additive in
(source, start field), hence the error after a cycle depends on the error
before, the grid, the model and the cycle parameters only (not on the source);
block systems are non-singular and the discrete solution is unique for
physical models.  So "reduction factor per cycle" is a well-defined property
of (grid, model, cycle).

What is NOT proved and only measured (labelled `measured` in the evidence):
the value of that factor and its independence of the grid size — a
quantitative statement of numerical analysis.  The measurement follows the
property's own procedure: reference problems on uniform grids, thresholds
relative to the factor at 16^3 plus absolute caps with a 1.5x margin to the
factors measured on the pinned tree (`harness/c06_baseline.json`).

Suites
  linear : real `solver.multigrid` (float64): error propagation independent of
           the source, additivity, exact solution fixed (theorems executed on
           the code).
  rates  : asymptotic residual reduction per cycle and cycles-to-tolerance on
           the reference problems.
"""
import os
import json
import types
import warnings
import itertools

import numpy as np

from harness import common

THEOREMS = [
    'Emg.runTrace_add', 'Emg.step_add', 'Emg.mg_error_propagation',
    'Emg.mg_error_propagation_phys', 'Emg.residual_add', 'Emg.restrict_add',
    'Emg.prolong_add', 'Emg.smoothingC_add', 'Emg.coarseLvl_add',
    'Emg.runTrace_fixed', 'Emg.mgRun_fixed_phys', 'Emg.mgRun_fixed_exact_phys', 'Emg.solution_unique_phys',
    'Emg.allInj_phys', 'Emg.Phys.reach',
    # Laplace domain: smoothers are energy-norm non-expansive
    'Emg.energy_nonneg', 'Emg.relaxBlock_energy', 'Emg.smoothingC_energy_le',
    'Emg.smoothing_energy_le', 'Emg.kernel_energy_le', 'Emg.PhysR.reach',
    'Emg.smoothingC_energy_le_reach',
    # ... and strictly decreasing for strictly dissipative models
    'Emg.energy_eq_zero', 'Emg.relaxAll_energy_lt', 'Emg.kernelBlocks_cover',
    'Emg.kernel_energy_lt', 'Emg.smoothing_energy_lt', 'Emg.PhysRS.reach',
    'Emg.smoothingC_energy_lt_reach',
]

BASELINE = os.path.join(os.path.dirname(__file__), 'c06_baseline.json')
L = 1600.0
CUBES = [8, 16, 32, 64, 128]
NONCUBIC = [(16, 24, 40), (32, 12, 20), (8, 48, 20), (24, 24, 24),
            (40, 40, 40), (12, 16, 10), (32, 32, 10), (64, 48, 10)]


def key_of(lap, tri, cyc, nu):
    med = tri if isinstance(tri, str) else ('tri' if tri else 'iso')
    return f"{'lap' if lap else 'frq'}-{med}-{cyc}-{nu}"


# further media (added after round 7 of the seeded changes): anisotropy given
# through an omitted keyword (VTI 1:1:2, HTI 1:2:1), and a triaxial medium
# whose coefficients eta = s mu0 sigma V are tiny (100/200/300 Ohm m, a cube of
# edge 16 m, 0.1 Hz or s = 0.1)
EXTRA_MEDIA = ('vti', 'hti', 'tiny')


def extra_configs():
    return [(lap, med, cyc, 2) for med in EXTRA_MEDIA
            for lap in (False, True) for cyc in 'FV']


def reference(shape, tri, lap):
    """Uniform grid with cubic cells (a cube of edge 1600 m refined for the
    cubic shapes), homogeneous medium 1 Ohm m or triaxial 1:2:3, 1 Hz or
    s = 1, finite dipole near the centre (not aligned with the grid)."""
    import emg3d
    edge = 16.0 if tri == 'tiny' else L
    h = edge/max(shape)
    hs = [np.ones(k)*h for k in shape]
    grid = emg3d.TensorMesh(hs, tuple(-k*h/2 for k in shape))
    if tri == 'vti':
        model = emg3d.Model(grid, property_x=1.0, property_z=2.0,
                            mapping='Resistivity')
    elif tri == 'hti':
        model = emg3d.Model(grid, property_x=1.0, property_y=2.0,
                            mapping='Resistivity')
    elif tri == 'tiny':
        model = emg3d.Model(grid, property_x=100.0, property_y=200.0,
                            property_z=300.0, mapping='Resistivity')
    elif tri:
        model = emg3d.Model(grid, property_x=1.0, property_y=2.0,
                            property_z=3.0, mapping='Resistivity')
    else:
        model = emg3d.Model(grid, property_x=1.0, mapping='Resistivity')
    sc = edge/L
    src = emg3d.TxElectricDipole((-100.*sc, 100.*sc, -100.*sc, 100.*sc,
                                  50.*sc, 100.*sc))
    f0 = 0.1 if tri == 'tiny' else 1.0
    with warnings.catch_warnings():
        warnings.simplefilter('ignore')
        sf = emg3d.get_source_field(grid, src, -f0 if lap else f0)
    return grid, model, sf


def measure(shape, tri, lap, cyc, nu, maxit=12):
    """(asymptotic factor, cycles to 1e-6, relative errors)."""
    import emg3d
    grid, model, sf = reference(shape, tri, lap)
    with warnings.catch_warnings():
        warnings.simplefilter('ignore')
        _, info = emg3d.solve(
            model, sf, sslsolver=False, semicoarsening=False,
            linerelaxation=False, cycle=cyc, nu_init=0, nu_pre=nu,
            nu_coarse=1, nu_post=nu, tol=1e-12, maxit=maxit, verb=-1,
            return_info=True)
    e = np.array(info['error_at_cycle'], float)/float(info['ref_error'])
    fac = e[1:]/e[:-1]
    ok = (e[1:] > 1e-11) & np.isfinite(fac) & (fac > 0)
    use = fac[ok][-5:]
    if tri == 'tiny':
        # nearly a pure curl-curl problem: the residual reaches its rounding
        # floor (~1e-7 |s|) after eight cycles; the factor is taken over
        # cycles 2-6
        use = fac[ok][1:6]
    g = float(np.exp(np.mean(np.log(use)))) if use.size else float('nan')
    below = np.nonzero(e < 1e-6)[0]
    if below.size:
        ncyc = int(below[0]) + 1
    elif np.isfinite(g) and 0 < g < 1 and e.size:
        # not reached within maxit: continue with the asymptotic factor
        ncyc = int(e.size + np.ceil(np.log(1e-6/e[-1])/np.log(g)))
    else:
        ncyc = None
    return g, ncyc, e.tolist()


def _one(a):
    lap, tri, cyc, nu, shape = a
    try:
        return a, measure(tuple(shape), tri, lap, cyc, nu)
    except Exception as e:      # noqa
        return a, ('raised', f'{type(e).__name__}: {str(e)[:200]}', None)


def all_configs():
    return list(itertools.product((False, True), (False, True), 'FVW',
                                  (1, 2, 3)))


def suite_rates(ctx):
    base = json.load(open(BASELINE))
    cfgs = all_configs()
    seed = ctx.seed if isinstance(ctx.seed, int) else 0
    if ctx.thorough:
        sel = cfgs
        sizes = [8, 16, 32]
        big = [c for i, c in enumerate(cfgs) if (i + seed) % 6 == 0]
    else:
        sel = [c for i, c in enumerate(cfgs) if (i + seed) % 4 == 0]
        sizes = [8, 16, 32]
        big = []
    jobs = [(lap, tri, cyc, nu, (n, n, n)) for (lap, tri, cyc, nu) in sel
            for n in sizes]
    # two non-cubic shapes (3*2^a, 5*2^b factors; more cells in y than in x)
    # in every tier
    jobs += [(lap, tri, cyc, nu, shp) for (lap, tri, cyc, nu) in sel
             for shp in ((12, 16, 10), (16, 24, 40), (32, 32, 10))]
    # the further media: 8^3 .. 32^3 and one non-cubic shape
    ex = extra_configs()
    if not ctx.thorough:
        ex = [c for i, c in enumerate(ex) if (i + seed) % 2 == 0]
    jobs += [(lap, med, cyc, nu, shp) for (lap, med, cyc, nu) in ex
             for shp in ((8, 8, 8), (16, 16, 16), (32, 32, 32), (16, 24, 40))]
    # one 64^3 problem in every tier (many slices per prolongation call)
    if not ctx.thorough:
        jobs.append((*sel[seed % len(sel)], (64, 64, 64)))
    jobs += [(lap, tri, cyc, nu, (64, 64, 64)) for (lap, tri, cyc, nu) in big]
    if ctx.thorough:
        for i, (lap, tri, cyc, nu) in enumerate(big):
            for shp in NONCUBIC[i % 2::2]:
                if (lap, tri, cyc, nu, shp) not in jobs:
                    jobs.append((lap, tri, cyc, nu, shp))
        jobs.append((False, False, 'F', 2, (128, 128, 128)))
    from concurrent.futures import ProcessPoolExecutor
    with ProcessPoolExecutor(max_workers=min(10, len(jobs))) as ex:
        res = list(ex.map(_one, jobs, chunksize=1))
    table = {}
    bad = []
    for (lap, tri, cyc, nu, shp), (g, ncyc, errs) in res:
        k = key_of(lap, tri, cyc, nu)
        if g == 'raised':
            ctx.violation('solver-raises', f'reference problem {k} {shp}: '
                          f'{ncyc}', {'config': k, 'shape': list(shp)})
            bad.append((k, shp, 'raised'))
            continue
        table.setdefault(k, {})['x'.join(map(str, shp))] = (g, ncyc)
    worst_rel, worst_abs = 0.0, 0.0
    for k, row in table.items():
        ref = row.get('16x16x16')
        for shp, (g, ncyc) in row.items():
            cap_m = base['factors'].get(k, {}).get(shp)
            dims = [int(v) for v in shp.split('x')]
            cubic2 = len(set(dims)) == 1 and dims[0] in CUBES
            replay = {'config': k, 'shape': dims}
            if not np.isfinite(g) or not g < 1.0:
                bad.append((k, shp, g))
                ctx.violation(
                    'multigrid-does-not-converge',
                    f'reference problem {k} on {shp}: residual reduction per '
                    f'cycle {g!r} (no convergence)', replay)
                continue
            # absolute cap: 1.5 x the factor measured on the pinned tree
            if cap_m is not None:
                worst_abs = max(worst_abs, g/cap_m)
                if g > 1.5*cap_m + 0.01:
                    bad.append((k, shp, g, cap_m))
                    ctx.violation(
                        'convergence-rate-degraded',
                        f'reference problem {k} on {shp}: residual reduction '
                        f'per cycle {g:.3f}; measured on the pinned tree '
                        f'{cap_m:.3f} (cap 1.5x = {1.5*cap_m:.3f})', replay)
                    continue
            # h-independence relative to 16^3 (power-of-two cubes)
            if cubic2 and ref is not None and dims[0] > 16:
                worst_rel = max(worst_rel, g/ref[0])
                if g > 1.5*ref[0] + 0.01:
                    bad.append((k, shp, g, ref[0]))
                    ctx.violation(
                        'rate-depends-on-grid-size',
                        f'reference problem {k}: factor {g:.3f} on {shp} '
                        f'versus {ref[0]:.3f} on 16^3 (more than 1.5x)',
                        replay)
                    continue
                if ref[1] is not None and (ncyc is None or
                                           ncyc > 1.75*ref[1] + 1):
                    bad.append((k, shp, 'cycles', ncyc, ref[1]))
                    ctx.violation(
                        'cycles-grow-with-grid-size',
                        f'reference problem {k}: {ncyc} cycles to 1e-6 on '
                        f'{shp} versus {ref[1]} on 16^3', replay)
            ctx.count(key=('rate', k, shp))
    ctx.cov['measured_factors'] = {k: {s: round(v[0], 4) for s, v in r.items()}
                                   for k, r in table.items()}
    ctx.cov['worst_factor_over_16cubed'] = round(worst_rel, 3)
    ctx.cov['worst_factor_over_pinned'] = round(worst_abs, 3)
    ctx.oblige('measured (NOT a theorem): on the reference problems the '
               'residual reduction per cycle stays below 1.5x the factor of '
               'the pinned tree and, on power-of-two cubes, below 1.5x the '
               'factor at 16^3; cycles to 1e-6 at most 1.75x those at 16^3 + 1',
               'measured', not bad, str(bad[:3])[:500])
    return bad


def suite_linear(ctx):
    """The theorems, executed on the real code in float64."""
    import emg3d
    from emg3d import solver as S
    rng = ctx.nprng('linear')
    bad = []
    n = 10 if ctx.thorough else 4
    for t in range(n):
        shp = [(8, 8, 8), (4, 6, 10), (16, 8, 4), (6, 6, 6), (12, 4, 8)][t % 5]
        hs = [rng.uniform(20., 60., k) for k in shp]
        grid = emg3d.TensorMesh(hs, (0., 0., 0.))
        lap = t % 3 == 2
        model = emg3d.Model(grid, property_x=10**rng.uniform(-1, 1, shp),
                            property_z=10**rng.uniform(-1, 1, shp))
        f0 = emg3d.Field(grid, frequency=-2.0 if lap else 2.0)
        vm = emg3d.models.VolumeModel(model, f0)

        def field(vals):
            f = emg3d.Field(grid, frequency=f0._frequency)
            f.field[:] = vals
            f.fx[:, [0, -1], :] = 0; f.fx[:, :, [0, -1]] = 0
            f.fy[[0, -1], :, :] = 0; f.fy[:, :, [0, -1]] = 0
            f.fz[[0, -1], :, :] = 0; f.fz[:, [0, -1], :] = 0
            return f

        def rnd():
            v = rng.standard_normal(f0.field.size)
            return v if lap else v + 1j*rng.standard_normal(f0.field.size)
        estar, d = field(rnd()), field(rnd())
        # s := A e* (the residual of e* for a zero source is -A e*)
        zero = emg3d.Field(grid, frequency=f0._frequency)
        s = field(-S.residual(vm, zero, estar).field)
        cyc = 'FVW'[t % 3]
        scd, lrd = [(0, 0), (True, 0), (2, 5), (0, 7), (1213, True)][t % 5]

        def run(sf, ef):
            var = S.MGParameters(
                cycle=cyc, sslsolver=False, semicoarsening=scd,
                linerelaxation=lrd, shape_cells=grid.shape_cells, verb=-1,
                maxit=2, tol=1e-300, nu_init=0, nu_pre=2, nu_coarse=1,
                nu_post=2, clevel=-1)
            var.l2_refe = 1.0
            e = ef.copy()
            with warnings.catch_warnings():
                warnings.simplefilter('ignore')
                S.multigrid(vm, sf.copy(), e, var)
            return e.field.copy()
        r_star = run(s, estar)
        r_d = run(zero, d)
        r_sum = run(s, field(estar.field + d.field))
        sc = float(np.max(np.abs(estar.field)) + np.max(np.abs(d.field)))
        tag = (shp, cyc, scd, lrd, lap)
        if not np.max(np.abs(r_star - estar.field)) <= 1e-9*sc:
            bad.append(('fixed point', tag))
            ctx.violation(
                'exact-solution-moved-by-cycle',
                f'solver.multigrid {tag}: started from the exact solution of '
                f'its system, the returned field differs from it by '
                f'{np.max(np.abs(r_star - estar.field))/sc:.3g} (relative)',
                {'tag': repr(tag)})
        elif not np.max(np.abs(r_sum - estar.field - r_d)) <= 1e-9*sc:
            bad.append(('error propagation', tag))
            ctx.violation(
                'error-propagation-depends-on-source',
                f'solver.multigrid {tag}: the error after two cycles started '
                f'from e* + d differs from the result for the error d with '
                f'zero source by '
                f'{np.max(np.abs(r_sum - estar.field - r_d))/sc:.3g}',
                {'tag': repr(tag)})
        ctx.count(key=('linear', tag))
    ctx.oblige('monitor: on the real solver.multigrid (float64; V/W/F, '
               'semicoarsening and line-relaxation settings, stretched '
               'grids) exact solutions are fixed and the error propagation '
               'does not depend on the source (theorems mgRun_fixed, '
               'mg_error_propagation executed on the code)', 'monitor',
               not bad, str(bad[:2]))
    return bad


def suite_energy(ctx):
    """Laplace domain: `solver.smoothing` (jitted kernels, float64) never
    increases the energy norm of the error (theorem smoothing_energy_le
    executed on the code)."""
    import emg3d
    from emg3d import solver as S
    rng = ctx.nprng('energy')
    bad = []
    n = 24 if ctx.thorough else 8
    for t in range(n):
        shp = [(4, 4, 4), (3, 5, 8), (8, 4, 6), (2, 6, 4), (6, 7, 3),
               (16, 8, 4), (5, 5, 5), (4, 2, 10)][t % 8]
        hs = [rng.uniform(10., 80., k)*(10.0**rng.uniform(-1, 1))
              for k in shp]
        grid = emg3d.TensorMesh(hs, (0., 0., 0.))
        kw = {'property_x': 10**rng.uniform(-2, 2, shp)}
        case = ['iso', 'VTI', 'HTI', 'tri'][t % 4]
        if case in ('HTI', 'tri'):
            kw['property_y'] = 10**rng.uniform(-2, 2, shp)
        if case in ('VTI', 'tri'):
            kw['property_z'] = 10**rng.uniform(-2, 2, shp)
        if t % 3 == 1:
            kw['mu_r'] = 10**rng.uniform(-0.5, 0.5, shp)
        if t % 5 == 2:
            kw['epsilon_r'] = rng.uniform(1., 50., shp)
        model = emg3d.Model(grid, **kw)
        sval = float(10**rng.uniform(-2, 2))
        f0 = emg3d.Field(grid, frequency=-sval)
        vm = emg3d.models.VolumeModel(model, f0)

        def field(vals):
            f = emg3d.Field(grid, frequency=-sval)
            f.field[:] = vals
            f.fx[:, [0, -1], :] = 0; f.fx[:, :, [0, -1]] = 0   # noqa
            f.fy[[0, -1], :, :] = 0; f.fy[:, :, [0, -1]] = 0   # noqa
            f.fz[[0, -1], :, :] = 0; f.fz[:, [0, -1], :] = 0   # noqa
            return f
        zero = emg3d.Field(grid, frequency=-sval)

        def energy(u):
            # <A u, u> with A u = -(residual of u for a zero source)
            au = -S.residual(vm, zero, field(u)).field
            return float(np.dot(au, u))
        estar = field(rng.standard_normal(f0.field.size))
        s = field(-S.residual(vm, zero, estar).field)
        e = field(estar.field + rng.standard_normal(f0.field.size))
        e0 = energy(e.field - estar.field)
        if not e0 > 0:
            bad.append(('energy not positive', shp, e0))
            ctx.violation(
                'laplace-operator-not-positive',
                f'Laplace domain, shape {shp}, {case}: <A d, d> = {e0!r} for '
                f'a random PEC field d (theorem energy_nonneg: >= 0)',
                {'shape': list(shp), 'case': case})
            continue
        for step in range(6):
            lr = int(rng.integers(0, 8))
            nu = int(rng.integers(1, 4))
            before = energy(e.field - estar.field)
            S.smoothing(vm, s, e, nu, lr)
            after = energy(e.field - estar.field)
            ctx.count(key=('energy', shp, case, lr, nu, step))
            strict = before > 1e-8*e0 and not after < before
            if strict or not after <= before*(1 + 1e-9) + 1e-13*e0:
                bad.append(('energy increased', shp, case, lr, nu))
                ctx.violation(
                    'smoother-increases-energy-norm',
                    f'Laplace domain (s={sval:.3g}), shape {shp}, {case}: '
                    f'solver.smoothing(nu={nu}, lr_dir={lr}) changed the '
                    f'energy norm of the error from {before!r} to {after!r} '
                    f'(theorems smoothing_energy_le / smoothing_energy_lt: '
                    f'never increases, strictly decreases for a non-zero '
                    f'error)',
                    {'shape': list(shp), 'case': case, 'lr_dir': lr, 'nu': nu})
                break
    ctx.oblige('monitor: Laplace domain, real solver.smoothing (jitted '
               'kernels, every line-relaxation code, 1-3 sweeps, stretched '
               'grids, anisotropy, mu_r, epsilon_r): <A d, d> > 0 and the '
               'energy norm of the error never increases and strictly '
               'decreases while the error is not negligible (theorems '
               'energy_nonneg, smoothing_energy_le, smoothing_energy_lt '
               'executed on the code)',
               'monitor', not bad, str(bad[:2]))
    return bad


def run(ctx):
    ctx.lean('Emg3dVerif.Props.SmoothStrict', THEOREMS)
    ctx.assumptions += [
        'PARTIAL: the convergence factor and its grid-size independence are '
        'MEASURED on the reference problems (obligation kind "measured"), '
        'not proved; proved is that the factor is a well-defined property of '
        '(grid, model, cycle): the call is a consistent linear stationary '
        'iteration (Props/C06.lean)',
        'the model of the complete multigrid call is tied to the code by the '
        'cycle correspondence of C03 (solver.multigrid vs Emg.mgRun, exact)',
        'thresholds: 1.5x the factors measured on the pinned tree '
        '(harness/c06_baseline.json), 1.5x the factor at 16^3',
    ]
    suite_linear(ctx)
    suite_energy(ctx)
    suite_rates(ctx)


def replay(ctx, rp):
    r = rp['replay']
    if 'config' not in r:
        suite_linear(ctx)
        suite_energy(ctx)
        for v in ctx.violations:
            print('replay:', v['sig'], v['what'][:200])
        return 1 if ctx.violations else 0
    dom, med, cyc, nu = r['config'].split('-')
    g, ncyc, errs = measure(tuple(r['shape']), med == 'tri', dom == 'lap',
                            cyc, int(nu))
    print(f'replay: {r["config"]} on {r["shape"]}: factor {g:.4f}, cycles to '
          f'1e-6: {ncyc}; relative errors {[f"{e:.2e}" for e in errs]}')
    base = json.load(open(BASELINE))['factors'].get(r['config'], {}).get(
        'x'.join(map(str, r['shape'])))
    return 1 if (not g < 1.0 or (base and g > 1.5*base + 0.01)) else 0
