"""C08 — J v is the data derivative, J^T its exact adjoint.

Suites
  build : `Simulation.jvec` with the solver call recorded: the source field
          handed to the solver == -s mu0 (cell -> edge average of the
          chain-scaled, case-stacked vector) * e  (model: `Grad.stack`,
          `Grad.avgX`, chain factor of C14) — this is where
          `discretize.get_edge_inner_product_deriv` is checked to be that
          average; data slots written; `jtvec(w r)` == `gradient`; repeated
          jvec / jtvec calls do not disturb each other or the misfit.
  adj   : Re<w, J v> == <J^T w, v> on the real code for random real v and
          complex w, gridding in {same, single, frequency, source, both}, in
          memory and file based (theorems jtvec_adjoint / jtvec_comp_grid).
  fd    : central differences of the synthetic data converge to J v
          (gridding 'same'; theorem jvec_is_derivative).
"""
import os
import shutil
import warnings

import numpy as np

from harness import common
from harness.gradworld import World, MAPS, CASES
from harness.c07 import converged, chain_factor, ctx_seed, ExitRec

THEOREMS = [
    'Adj.jtvec_adjoint', 'Adj.inv_symm', 'Adj.jtvec_comp_grid',
    'Adj.jvec_comp_grid', 'Adj.jvec_is_derivative', 'Adj.resolvent2',
    'Grad.collect_stack_adjoint', 'Grad.toVolX_adjoint', 'Grad.avgX_interior',
]


def cell_to_edge(vol, vx, vy, vz):
    """Transpose of the model's edges -> cells distribution (float)."""
    nx, ny, nz = vol.shape

    def hits(N, n, c):
        return int(max(n-1, 0) == c) + int(min(N-1, n) == c)
    Hx = np.array([[hits(nx, n, c) for c in range(nx)] for n in range(nx+1)], float)
    Hy = np.array([[hits(ny, n, c) for c in range(ny)] for n in range(ny+1)], float)
    Hz = np.array([[hits(nz, n, c) for c in range(nz)] for n in range(nz+1)], float)
    ex = np.einsum('ijk,aj,bk->iab', vol*vx, Hy, Hz)/4
    ey = np.einsum('ijk,ai,bk->ajb', vol*vy, Hx, Hz)/4
    ez = np.einsum('ijk,ai,bj->abk', vol*vz, Hx, Hy)/4
    return ex, ey, ez


class SolveRec:
    def __init__(self, emg3d):
        self.mp = emg3d._multiprocessing
        self.calls = []

    def __enter__(self):
        self.orig = self.mp.solve

        def rec(inp):
            if isinstance(inp, dict):
                self.calls.append(inp['sfield'].field.copy())
            else:
                self.calls.append(None)
            return self.orig(inp)
        self.mp.solve = rec
        return self

    def __exit__(self, *a):
        self.mp.solve = self.orig


def suite_build(ctx):
    import emg3d
    rng = ctx.nprng('build')
    bad = []
    nv0 = len(ctx.violations)
    nw = 8 if ctx.thorough else 4
    lines = []
    for t in range(nw):
        case = list(CASES)[(t + ctx_seed(ctx)) % 4]
        mapping = MAPS[(t*5 + 1 + ctx_seed(ctx)) % 6]
        w = World(emg3d, rng, case, mapping, shape=(8, 8, 8),
                  relative=bool(t % 2))
        sim = w.sim()
        with warnings.catch_warnings():
            warnings.simplefilter('ignore')
            m0 = float(sim.misfit)
        x0 = w.x0()
        v = rng.standard_normal(x0.shape)
        vin = v if case != 'isotropic' else (v[0] if t % 2 else v)
        with warnings.catch_warnings(), SolveRec(emg3d) as rec:
            warnings.simplefilter('ignore')
            jv = np.array(sim.jvec(vin), copy=True)
        if not converged(sim):
            continue
        tag = (case, mapping)
        # expected source fields
        cv = v*chain_factor(w)
        stack = {'isotropic': lambda c: (c[0], c[0], c[0]),
                 'HTI': lambda c: (c[0], c[1], c[0]),
                 'VTI': lambda c: (c[0], c[0], c[1]),
                 'triaxial': lambda c: (c[0], c[1], c[2])}[case](cv)
        vol = w.grid.cell_volumes.reshape(w.grid.shape_cells, order='F')
        ax, ay, az = cell_to_edge(vol, *stack)
        pairs = [(s, f) for s in w.survey.sources for f in w.survey.frequencies]
        if len(rec.calls) != len(pairs):
            bad.append(('solve calls', tag, len(rec.calls)))
        for (sk, fk), sf in zip(pairs, rec.calls):
            e = sim._dict_efield[sk][fk]
            exp = emg3d.Field(w.grid, frequency=e.frequency)
            exp.fx[...] = -e.smu0*ax*e.fx
            exp.fy[...] = -e.smu0*ay*e.fy
            exp.fz[...] = -e.smu0*az*e.fz
            sc = np.max(np.abs(exp.field))
            if sf is None or np.max(np.abs(sf-exp.field)) > 1e-12*sc:
                bad.append(('gfield', tag, sk, fk))
                ctx.violation(
                    'jvec-source-field-differs',
                    f'world {tag}: the source field of jvec for {sk}/{fk} '
                    f'differs from -s mu0 (cell->edge average of the scaled '
                    f'vector) e by '
                    f'{np.max(np.abs(sf-exp.field))/sc if sf is not None else "n/a"}',
                    {'tag': repr(tag)})
        # all data slots written, also where the observed data are NaN
        if not np.all(np.isfinite(jv)):
            bad.append(('slots', tag))
        # jtvec(w r) == gradient; calls do not disturb each other
        with warnings.catch_warnings():
            warnings.simplefilter('ignore')
            g = np.array(sim.gradient, copy=True)
            r = sim.data.residual.data.copy()
            wt = sim.data.weights.data.copy()
            fin = np.isfinite(sim.data.observed.data)
            wr = np.where(fin, r*wt, 0)
            g2 = np.array(sim.jtvec(wr), copy=True)
            jv2 = np.array(sim.jvec(vin), copy=True)
            g3 = np.array(sim.jtvec(wr), copy=True)
            g4 = np.array(sim.gradient, copy=True)
            m1 = float(sim.misfit)
            # an unrelated data vector in between: the residual the survey
            # holds, and J^T of the weighted residual, stay what they were
            w2 = rng.standard_normal(r.shape) + 1j*rng.standard_normal(r.shape)
            w2 *= np.nanmax(np.abs(wr))
            _ = sim.jtvec(w2)
            r5 = sim.data.residual.data.copy()
            wr5 = np.where(fin, sim.data.residual.data*sim.data.weights.data,
                           0)
            g5 = np.array(sim.jtvec(wr5), copy=True)
        sc = np.max(np.abs(g))
        if not np.array_equal(r5, r, equal_nan=True) or \
                np.max(np.abs(g5-g)) > 1e-9*sc:
            bad.append(('jtvec changes the stored residual', tag))
            ctx.violation(
                'jtvec-disturbs-residual',
                f'world {tag}: after jtvec(w) with an unrelated data vector '
                f'the stored residual differs from before by '
                f'{np.nanmax(np.abs(r5-r))!r} and jtvec(weights*residual) '
                f'from the misfit gradient by {np.max(np.abs(g5-g))/sc:.3g} '
                f'(relative)', {'tag': repr(tag)})
        if (np.max(np.abs(g2-g)) > 1e-9*sc or np.max(np.abs(g3-g)) > 1e-9*sc or
                np.max(np.abs(g4-g)) > 1e-12*sc or m1 != m0 or
                np.max(np.abs(jv2-jv)) > 1e-9*np.max(np.abs(jv))):
            bad.append(('jtvec(wr) vs gradient / repeat', tag))
            ctx.violation(
                'jtvec-of-weighted-residual-not-gradient',
                f'world {tag}: jtvec(w r) vs gradient differ by '
                f'{np.max(np.abs(g2-g))/sc:.3g}, repeated '
                f'{np.max(np.abs(g3-g))/sc:.3g}, gradient afterwards '
                f'{np.max(np.abs(g4-g))/sc:.3g}, misfit {m0!r} -> {m1!r}',
                {'tag': repr(tag)})
        lines.append(f"stack {case} " + " ".join(
            str(i+2) for i in range(len(CASES[case]))))
        ctx.count(key=('build', tag))
    out = common.run_driver(
        ['stack isotropic 2', 'stack HTI 2 3', 'stack VTI 2 3',
         'stack triaxial 2 3 4'], timeout=60)
    if out != ['2 2 2', '2 3 2', '2 2 3', '2 3 4']:
        bad.append(('stack table', out))
    ctx.oblige('correspondence: jvec source field == -s mu0 (cell->edge '
               'average of the chain-scaled, stacked vector) e; slots; '
               'jtvec(w r) == gradient; repeated calls consistent',
               'correspondence', not bad and len(ctx.violations) == nv0,
               str(bad[:2])[:500])
    return bad


def suite_adj(ctx):
    import emg3d
    rng = ctx.nprng('adj')
    bad = []
    nv0 = len(ctx.violations)
    modes = ['same', 'single', 'frequency', 'source', 'both']
    tmp = os.path.join(common.CACHE, f'c08-{os.getpid()}')
    worst = {}
    skipped = 0
    try:
        k = 0
        for gi, gridding in enumerate(modes):
            reps = 2 if ctx.thorough else 1
            for rep in range(reps):
                k += 1
                case = list(CASES)[(k + ctx_seed(ctx)) % 4]
                mapping = MAPS[(k*5 + ctx_seed(ctx)) % 6]
                # same number of cells in model and computational grid is
                # the interesting case for the other modes
                shape = (8, 8, 8) if (k % 2 or gridding == 'same') \
                    else (16, 8, 8)
                w = World(emg3d, rng, case, mapping, shape=shape,
                          gridding=gridding, relative=bool(k % 2))
                if k % 2:
                    # data-sized w below: weak adjoint sources, on which
                    # SciPy's bicgstab breaks down (absolute thresholds)
                    from harness.gradworld import SOLVER
                    w.opts['solver_opts'] = dict(SOLVER, sslsolver=False,
                                                 cycle='F', maxit=300)
                file_based = (k % 2 == 0)
                kw = {}
                if file_based:
                    shutil.rmtree(tmp, ignore_errors=True)
                    os.makedirs(tmp)
                    kw['file_dir'] = tmp
                sim = w.sim(**kw)
                with warnings.catch_warnings(), ExitRec(emg3d) as er:
                    warnings.simplefilter('ignore')
                    _ = sim.misfit
                    x0 = w.x0()
                    v = rng.standard_normal(x0.shape)
                    jv = np.array(sim.jvec(v if case != 'isotropic'
                                           else v[0]), copy=True)
                    fin = np.isfinite(sim.data.observed.data)
                    wv = rng.standard_normal(jv.shape) + \
                        1j*rng.standard_normal(jv.shape)
                    wv[~fin] = 0
                    if k % 2:
                        # data-sized vectors (J^T is linear in w)
                        wv = wv*1e-14
                    jt = np.array(sim.jtvec(wv), copy=True)
                if not er.ok:
                    skipped += 1
                    continue
                lhs = float(np.sum(np.conj(wv)*jv).real)
                rhs = float(np.sum(jt.reshape(x0.shape)*v))
                # scale: sum of the magnitudes (no cancellation credit)
                sc = float(np.sum(np.abs(wv)*np.abs(jv)))
                err = abs(lhs-rhs)/sc
                tag = (gridding, case, mapping, shape, file_based)
                grids = {tuple(sim.get_grid(s, f).shape_cells)
                         for s in w.survey.sources
                         for f in w.survey.frequencies}
                worst[str(tag)] = float(f'{err:.3g}')
                if err > 1e-7:
                    bad.append((tag, lhs, rhs))
                    ctx.violation(
                        'jtvec-not-adjoint',
                        f'{tag}: Re<w, J v> = {lhs!r}, <J^T w, v> = {rhs!r} '
                        f'(relative to sum |w||Jv|: {err:.3g}; computational '
                        f'grids {sorted(grids)}, model grid '
                        f'{w.grid.shape_cells})', {'tag': repr(tag)})
                ctx.count(key=('adj', tag))
    finally:
        shutil.rmtree(tmp, ignore_errors=True)
    ctx.cov['adjoint_errors'] = worst
    ctx.cov['adj_unconverged_worlds'] = skipped
    ctx.oblige('monitor: Re<w, J v> == <J^T w, v> (1e-7 of sum |w||Jv|) for '
               'gridding same / single / frequency / source / both, in memory '
               'and file based', 'monitor',
               not bad and len(ctx.violations) == nv0, str(bad[:2])[:500])
    return bad


def suite_fd(ctx):
    import emg3d
    rng = ctx.nprng('fd')
    bad = []
    nv0 = len(ctx.violations)
    nw = 4 if ctx.thorough else 2
    for t in range(nw):
        case = list(CASES)[(t + 2 + ctx_seed(ctx)) % 4]
        mapping = MAPS[(t*5 + 4 + ctx_seed(ctx)) % 6]
        w = World(emg3d, rng, case, mapping, shape=(8, 8, 8))
        sim = w.sim()
        with warnings.catch_warnings():
            warnings.simplefilter('ignore')
            _ = sim.misfit
        x0 = w.x0()
        v = rng.standard_normal(x0.shape)
        with warnings.catch_warnings():
            warnings.simplefilter('ignore')
            jv = np.array(sim.jvec(v if case != 'isotropic' else v[0]),
                          copy=True)
        if not converged(sim):
            continue
        scale = 0.02/np.max(np.abs(v))
        if mapping in ('Conductivity', 'Resistivity'):
            scale *= float(np.min(np.abs(x0)))
        errs, fds = [], []
        for h in [scale, scale/2]:
            with warnings.catch_warnings():
                warnings.simplefilter('ignore')
                sp = w.sim(w.model_at(x0+h*v))
                sm = w.sim(w.model_at(x0-h*v))
                sp.compute()
                sm.compute()
            fd = (sp.data.synthetic.data-sm.data.synthetic.data)/(2*h)
            fds.append(fd)
            errs.append(float(np.max(np.abs(fd-jv)/np.abs(jv))))
        order = np.log2(errs[0]/errs[1]) if errs[1] > 0 else np.inf
        tag = (case, mapping)
        rel = float(np.max(np.abs((4*fds[1]-fds[0])/3-jv)/np.abs(jv)))
        if rel > 1e-3 or (errs[1] > 1e-7 and order < 1.6):
            bad.append((tag, errs, order))
            ctx.violation(
                'jvec-not-data-derivative',
                f'world {tag}: central differences of the data differ from '
                f'J v by {errs} (relative, steps h, h/2; order {order:.2f})',
                {'tag': repr(tag)})
        ctx.count(key=('fd', tag))
    ctx.oblige('monitor: central differences of the synthetic data converge '
               '(order ~2) to J v', 'monitor',
               not bad and len(ctx.violations) == nv0, str(bad[:2])[:400])
    return bad


def run(ctx):
    ctx.lean('Emg3dVerif.Props.C07', THEOREMS)   # imports Props.C08
    ctx.assumptions += [
        'exact solves (1e-11; non-converged worlds skipped and counted); '
        'system matrix symmetric (C02), receivers / point sources mutual '
        'transposes (C09), volume averaging to the computational grid and '
        'discretize.volume_average(...).T mutual transposes (C15)',
        'discretize.get_edge_inner_product_deriv is compared with the '
        'cell->edge average of the model on every jvec call of the suite',
    ]
    b = []
    for s in (suite_build, suite_adj, suite_fd):
        b += s(ctx) or []
    if b and not ctx.violations:
        ctx.violation('model-correspondence-broken',
                      f'jvec / jtvec no longer match the model '
                      f'({str(b[:1])[:300]})', {'first': str(b[:1])[:800]},
                      found_input=False)


def replay(ctx, rp):
    for s in (suite_build, suite_adj, suite_fd):
        s(ctx)
    for v in ctx.violations:
        print('replay:', v['sig'], v['what'][:200])
    return 1 if ctx.violations else 0
