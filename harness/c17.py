"""C17 — save and load round-trip every emg3d object in every file format.

Suites
  tree  : the tree functions of `emg3d.io` (`_dict_serialize`,
          `_nonetype_to_none`, `_dict_deserialize`, `_dict_flatten`,
          `_dict_unflatten`, `_dict_dearray_decomp` key flags) on randomly
          composed trees (depth <= 4, instances of every registered class
          inside) == Lean model `IoT`; leaf codec hypothesis
          `_dict_array_comp(_dict_dearray_decomp(x)) == x` on real leaves.
  class : `from_dict(to_dict(x))` equals `x` for instances of every registered
          class (the hypothesis of the de-serialisation theorems).
  files : `emg3d.save` -> `emg3d.load` in .h5 / .npz / .json and
          `emg3d.io.convert` for the six ordered pairs, on real files:
          result == model prediction `IoT.load (IoT.save ..)` (the input for
          well-formed trees); `to_file` / `from_file` of every class;
          Simulation with `what` in computed / results / all / plain.
"""
import hashlib
import os
import shutil
import warnings

import numpy as np

from harness import common

THEOREMS = [
    'IoT.des_non_ser_F', 'IoT.load_save_h5', 'IoT.comp_dearr_F',
    'IoT.load_save_json', 'IoT.splitSep_joinP', 'IoT.unflatten_flatten',
    'IoT.load_save_npz', 'IoT.npz_empty_dict_lost', 'IoT.convert_preserves',
    # string level of the JSON key flags (Props/JsonKey.lean)
    'JKey.unflag_flag', 'JKey.rsplit1_append', 'JKey.removeAll_append_self',
    'JKey.contains_append_false', 'JKey.marker_in_key_is_misread',
    'JShape.shapeOf_nest', 'JShape.roundtrip', 'JShape.empty_array_shape_lost',
]

FMTS = ['h5', 'npz', 'json']


def esc(s):
    out = []
    for ch in str(s):
        if (ch.isascii() and ch.isalnum()) or ch in '_.>-+':
            out.append(ch)
        else:
            out.append('%%%x.' % ord(ch))
    return ''.join(out)


def hx(x):
    x = float(x)
    if x != x:
        return 'nan'
    return x.hex()


class Canon:
    def __init__(self, emg3d):
        self.known = emg3d.utils._KNOWN_CLASSES
        self.kinds = {}

    def leaf(self, v):
        """Canonical token of a leaf, or None if `v` is not a leaf."""
        if v is None:
            return 'N'
        if isinstance(v, (bool, np.bool_)):
            return 'B1' if v else 'B0'
        if isinstance(v, (int, np.integer)):
            return f'Xint:{int(v)}'
        if isinstance(v, (float, np.floating)):
            return f'Xreal:{hx(v)}'
        if isinstance(v, (complex, np.complexfloating)):
            return f'Xcomplex:{hx(v.real)}_{hx(v.imag)}'
        if isinstance(v, (str, np.str_)):
            return 'S' + esc(v)
        if isinstance(v, bytes):
            return 'S' + esc(v.decode())
        if isinstance(v, np.ndarray):
            if v.ndim == 0:
                return self.leaf(v[()])
            if v.dtype.kind in 'US':
                return 'Astr:' + esc('|'.join(map(str, v.ravel().tolist())))
            if v.dtype == object:
                return 'Aobj:' + hashlib.sha1(
                    repr(v.tolist()).encode()).hexdigest()[:16]
            b = np.ascontiguousarray(v).tobytes()
            return (f'A{v.dtype.name}:' + 'x'.join(map(str, v.shape)) + '_' +
                    hashlib.sha1(b).hexdigest()[:16])
        if isinstance(v, (list, tuple)):
            if all(isinstance(x, (str, np.str_)) for x in v) and len(v):
                return 'Astr:' + esc('|'.join(map(str, v)))
            try:
                a = np.asarray(v)
                if a.dtype != object and a.dtype.kind not in 'US':
                    return self.leaf(a) if a.ndim else self.leaf(a[()])
            except Exception:       # noqa
                pass
            return 'Aobj:' + hashlib.sha1(repr(
                [self.tokens(x) for x in v]).encode()).hexdigest()[:16]
        return None

    def tokens(self, v, inobj=False):
        """Token list of a value."""
        if isinstance(v, tuple(self.known.values())):
            if hasattr(v, 'face_areas') and not hasattr(v, 'to_dict'):
                raise TypeError('foreign mesh')
            d = v.to_dict()
            return self.tokens(d, inobj)
        if isinstance(v, dict):
            isobj = v.get('__class__', None) in self.known \
                if isinstance(v.get('__class__', None), str) else False
            out = ['{' if isobj else '(']
            for k, x in v.items():
                if (isobj or inobj) and isinstance(x, dict) and not x:
                    continue     # from_dict defaults make them unobservable
                out.append('K' + esc(k))
                out += self.tokens(x, inobj or isobj)
            out.append('}' if isobj else ')')
            return out
        t = self.leaf(v)
        if t is None:
            t = 'S' + esc(type(v).__name__ + ':' + repr(v)[:40])
        kind = t[0] + (t[1:].split(':')[0] if t[0] in 'XA' else '')
        self.kinds[kind] = self.kinds.get(kind, 0) + 1
        return [t]

    def line(self, v):
        return ' '.join(self.tokens(v))


# --------------------------------------------------------------------------
# generators
# --------------------------------------------------------------------------
WORDS = ['a', 'b', 'data', 'x1', 'survey', 'Tx-1', 'f-2', 'model', 'field',
         'results', 'α', 'key with space', 'n0', 'Z']


def gen_leaf(rng):
    k = int(rng.integers(0, 16))
    if k == 0:
        return None
    if k == 1:
        return bool(rng.integers(0, 2))
    if k == 2:
        return int(rng.integers(-1000, 1000))
    if k == 3:
        return float(rng.standard_normal())
    if k == 4:
        return float(rng.choice([np.nan, np.inf, -np.inf, 0.0, -0.0, 1e-300]))
    if k == 5:
        return complex(rng.standard_normal(), rng.standard_normal())
    if k == 6:
        return str(rng.choice(['hello', '', 'None', 'with space', 'a>b',
                               'ünïcode', 'x'*30]))
    if k == 7:
        return np.float64(rng.standard_normal())
    if k == 8:
        return np.int64(rng.integers(-5, 5))
    shape = tuple(int(n) for n in rng.integers(1, 4, int(rng.integers(1, 4))))
    if k == 9:
        return rng.standard_normal(shape)
    if k == 10:
        return rng.standard_normal(shape).astype(np.float32)
    if k == 11:
        return rng.integers(-9, 9, shape)
    if k == 12:
        return rng.standard_normal(shape) + 1j*rng.standard_normal(shape)
    if k == 13:
        return (rng.standard_normal(shape) +
                1j*rng.standard_normal(shape)).astype(np.complex64)
    if k == 14:
        return np.asfortranarray(rng.standard_normal((3, 2)))
    a = rng.standard_normal(shape)
    a.ravel()[0] = np.nan
    return a


def gen_tree(rng, depth, objs, allow_empty=False):
    n = int(rng.integers(1, 5))
    d = {}
    keys = list(rng.permutation(WORDS)[:n])
    for k in keys:
        r = rng.random()
        if depth > 1 and r < 0.35:
            d[str(k)] = gen_tree(rng, depth-1, objs, allow_empty)
        elif objs and r < 0.55:
            d[str(k)] = objs[int(rng.integers(0, len(objs)))]
        elif allow_empty and r < 0.62:
            d[str(k)] = {}
        else:
            d[str(k)] = gen_leaf(rng)
    return d


def gen_objects(emg3d, rng, with_sim=True):
    """Instances of every registered class."""
    objs = {}
    hx_ = rng.uniform(10, 100, int(rng.choice([2, 4])))
    grid = emg3d.TensorMesh([hx_, rng.uniform(10, 100, 2),
                             rng.uniform(10, 100, 4)],
                            rng.uniform(-100, 100, 3))
    objs['TensorMesh'] = [grid]
    models = []
    maps = ['Conductivity', 'LgConductivity', 'LnConductivity',
            'Resistivity', 'LgResistivity', 'LnResistivity']
    for i, case in enumerate([('x',), ('x', 'y'), ('x', 'z'),
                              ('x', 'y', 'z')]):
        m = maps[int(rng.integers(0, 6))]
        mp = getattr(emg3d.maps, 'Map'+m)()
        kw = {'property_'+d: mp.forward(10.0**rng.uniform(-2, 2, grid.shape_cells))
              for d in case}
        if i % 2:
            kw['mu_r'] = rng.uniform(1, 2, grid.shape_cells)
        if i >= 2:
            kw['epsilon_r'] = rng.uniform(1, 9, grid.shape_cells)
        if i == 0:
            kw['property_x'] = float(mp.forward(2.5))
        models.append(emg3d.Model(grid, mapping=m, **kw))
    objs['Model'] = models
    fields = []
    for fr, el in [(1.5, True), (-2.0, True), (None, True), (0.3, False)]:
        f = emg3d.Field(grid, frequency=fr, electric=el)
        v = rng.standard_normal(f.field.size)
        if np.iscomplexobj(f.field):
            v = v + 1j*rng.standard_normal(f.field.size)
        f.field = v.astype(f.field.dtype)
        fields.append(f)
    fr = emg3d.Field(grid, frequency=-1.0, dtype=np.float64)
    fr.field = rng.standard_normal(fr.field.size)
    fields.append(fr)
    objs['Field'] = fields
    c5 = (10., -20., 5., 30., 10.)
    objs['TxElectricPoint'] = [emg3d.TxElectricPoint(c5, strength=2.5),
                               emg3d.TxElectricPoint(c5, strength=1+2j)]
    objs['TxElectricDipole'] = [
        emg3d.TxElectricDipole((0., 100., 5., 10., -3., -4.)),
        emg3d.TxElectricDipole((10., -20., 5., 30., 10.), strength=3.0,
                               length=50.),
        emg3d.TxElectricDipole(np.array([[0., 0., 0.], [30., 40., 0.]]),
                               strength=2-1j)]
    objs['TxMagneticPoint'] = [emg3d.TxMagneticPoint(c5, strength=0.5)]
    objs['TxMagneticDipole'] = [
        emg3d.TxMagneticDipole((0., 100., 5., 10., -3., -4.), strength=1j),
        emg3d.TxMagneticDipole((10., -20., 5., 30., 10.))]
    objs['TxElectricWire'] = [emg3d.TxElectricWire(
        np.array([[0., 0., 0.], [10., 0., 0.], [10., 20., 0.], [0., 20., 5.]]),
        strength=4.0)]
    objs['RxElectricPoint'] = [
        emg3d.RxElectricPoint((100., 60., -30., 0., 0.)),
        emg3d.RxElectricPoint((100., 60., -30., 45., 10.), relative=True,
                              data_type='complex')]
    objs['RxMagneticPoint'] = [
        emg3d.RxMagneticPoint((-40., -80., -50., 45., 10.))]
    surveys = []
    for variant in range(3):
        # names chosen so that insertion order != alphabetical order
        srcs = {'Tx-2': objs['TxElectricDipole'][variant % 3],
                'Tx-10': objs['TxMagneticDipole'][variant % 2],
                'Tx-1': objs['TxElectricPoint'][variant % 2]}
        recs = {'Rx-b': objs['RxElectricPoint'][0],
                'Rx-a': objs['RxMagneticPoint'][0],
                'Rx-10': emg3d.RxElectricPoint((1., 2., 3., 0., 0.),
                                               relative=True)}
        freqs = {'f-2': 2.0, 'f-10': 0.5, 'f-1': 1.0} if variant != 1 \
            else [2.0, 0.5]
        nd = (3, 3, 3 if variant != 1 else 2)
        kw = {}
        if variant == 0:
            kw = {'noise_floor': 1e-15, 'relative_error': 0.05}
        elif variant == 1:
            kw = {'noise_floor': rng.uniform(1e-16, 1e-14, nd),
                  'relative_error': rng.uniform(0.01, 0.1, nd)}
        data = rng.standard_normal(nd) + 1j*rng.standard_normal(nd)
        data[0, 1, 0] = np.nan + 1j*np.nan
        s = emg3d.Survey(sources=srcs, receivers=recs, frequencies=freqs,
                         data=data if variant != 2 else {
                             'observed': data, 'extra': data*2},
                         name=['survey-x', None, 'ü'][variant],
                         info=[None, 'some info', ''][variant],
                         date=[None, '2020-01-01', None][variant], **kw)
        if variant == 2:
            s.data['standard_deviation'] = s.data.observed.copy(
                data=np.abs(data.real)+0.1)
        surveys.append(s)
    objs['Survey'] = surveys
    if with_sim:
        sims = make_sims(emg3d, rng)
        objs['Simulation'] = sims
    return objs


def make_sims(emg3d, rng):
    hx_ = np.ones(8)*50.0
    grid = emg3d.TensorMesh([hx_, hx_, hx_], (-200, -200, -200))
    model = emg3d.Model(grid, property_x=1.0, property_z=2.0,
                        mapping='Resistivity')
    srcs = {'Tx-2': emg3d.TxElectricDipole((-60., 10., 20., 30., 10.)),
            'Tx-1': emg3d.TxElectricDipole((60., -10., 20., 10., 0.))}
    recs = {'Rx-b': emg3d.RxElectricPoint((110., 60., 30., 0., 0.)),
            'Rx-a': emg3d.RxMagneticPoint((-40., -80., -50., 45., 10.))}
    survey = emg3d.Survey(sources=srcs, receivers=recs,
                          frequencies={'f-2': 2.0, 'f-1': 1.0},
                          noise_floor=1e-15, relative_error=0.05)
    with warnings.catch_warnings():
        warnings.simplefilter('ignore')
        base = dict(survey=survey, model=model, gridding='same',
                    max_workers=1, receiver_interpolation='linear',
                    solver_opts={'plain': True, 'tol': 1e-3, 'maxit': 5},
                    verb=0, tqdm_opts=False, name='sim', info='info')
        plain = emg3d.Simulation(**base)
        # forward and gradient tolerance differ; the last solver call before
        # saving is a gradient
        comp = emg3d.Simulation(**{
            **base, 'survey': survey.copy(),
            'solver_opts': {'plain': True, 'tol': 1e-3, 'maxit': 5,
                            'tol_gradient': 1e-2}})
        comp.compute(observed=True)
        comp.survey.data['observed'] = comp.data.observed*1.1
        comp.compute()
        _ = comp.misfit
        _ = comp.gradient
        auto = emg3d.Simulation(**{
            **base, 'survey': survey.copy(), 'gridding': 'single',
            'gridding_opts': {'center': (0, 0, 0), 'domain': (
                [-200, 200], [-200, 200], [-200, 200]),
                'cell_numbers': [8, 16], 'min_width_limits': 50.,
                'max_buffer': 300., 'center_on_edge': True}})
        # grids handed in by the user: one for all / one per pair
        cgrid = emg3d.TensorMesh([np.ones(8)*50.0, np.ones(4)*100.0,
                                  np.ones(8)*50.0], (-200, -200, -200))
        given = emg3d.Simulation(**{
            **base, 'survey': survey.copy(), 'gridding': 'input',
            'gridding_opts': cgrid})
        perpair = emg3d.Simulation(**{
            **base, 'survey': survey.copy(), 'gridding': 'dict',
            'gridding_opts': {s_: {f: (cgrid if f == 'f-1' else grid)
                                   for f in survey.frequencies}
                              for s_ in survey.sources}})
    return [plain, comp, auto, given, perpair]


# --------------------------------------------------------------------------
def suite_tree(ctx):
    import emg3d
    io = emg3d.io
    rng = ctx.nprng('tree')
    cn = Canon(emg3d)
    known = ' '.join(sorted(emg3d.utils._KNOWN_CLASSES))
    objs = gen_objects(emg3d, rng, with_sim=False)
    pool = [o for k, v in objs.items() for o in v]
    n = 120 if ctx.thorough else 40
    lines, got, tags = [], [], []
    bad = []
    for t in range(n):
        tree = gen_tree(rng, int(rng.integers(1, 5)), pool if t % 2 else [],
                        allow_empty=(t % 5 == 0))
        src = cn.line(tree)
        # serialize
        ser = io._dict_serialize(tree)
        lines.append('io ser ' + src)
        got.append(cn.line(_plain(ser)))
        tags.append('ser')
        # none
        import copy
        non = copy.deepcopy(ser)
        io._nonetype_to_none(non)
        lines.append('io non ' + cn.line(_plain(ser)))
        got.append(cn.line(_plain(non)))
        tags.append('non')
        # deserialize
        des = copy.deepcopy(non)
        with warnings.catch_warnings():
            warnings.simplefilter('ignore')
            io._dict_deserialize(des)
        lines.append(f'io des {known} | ' + cn.line(_plain(non)))
        got.append(cn.line(des))
        tags.append('des')
        # flatten / unflatten (keys may contain '>' in the generated strings
        # only as values; keys here are clean)
        fl = io._dict_flatten(ser)
        lines.append('io flat ' + cn.line(_plain(ser)))
        got.append(' '.join('K'+esc(k)+' '+cn.leaf(v) for k, v in fl.items()))
        tags.append('flat')
        un = io._dict_unflatten(fl)
        lines.append('io unflat ' + ' '.join(
            'K'+esc(k)+' '+cn.leaf(v) for k, v in fl.items()))
        got.append(cn.line(_plain(un)))
        tags.append('unflat')
        # JSON key flags
        de = io._dict_dearray_decomp(ser)
        lines.append('io dearr ' + cn.line(_plain(ser)))
        got.append(jline(de))
        tags.append('dearr')
        # leaf codec hypothesis on the real functions
        back = io._dict_array_comp(io._dict_dearray_decomp(ser))
        a, b = cn.line(_plain(back)), cn.line(_plain(ser))
        if a != b:
            bad.append(('array_comp(dearray_decomp(x)) != x', a[:300], b[:300]))
            ctx.violation('json-codec-not-inverse',
                          '_dict_array_comp(_dict_dearray_decomp(x)) differs '
                          'from x', {'x': b[:2000], 'back': a[:2000]})
        ctx.count(key=src)
    out = common.run_driver(lines, timeout=600)
    for ln, g, o, tg in zip(lines, got, out, tags):
        if tg != 'des':      # no instances left: classed dicts are dicts
            g = g.replace('{', '(').replace('}', ')')
            o = o.replace('{', '(').replace('}', ')')
        if norm(g) != norm(o):
            bad.append((tg, ln[:300], g[:300], o[:300]))
    ctx.cov['leaf_kinds'] = cn.kinds
    ctx.oblige('correspondence: _dict_serialize / _nonetype_to_none / '
               '_dict_deserialize / _dict_flatten / _dict_unflatten / '
               '_dict_dearray_decomp flags == IoT model on random trees with '
               'instances of every class; array_comp inverts dearray_decomp',
               'correspondence', not bad, str(bad[:2])[:900])
    ctx.samples.append({'tree': lines[0][:300], 'model': out[0][:300]})
    return bad


def norm(s):
    return ' '.join(s.split())


class _P(dict):
    """Marker: canonicalise as a plain dictionary even with __class__."""


def _plain(d):
    return d


def jline(d):
    """Canonical form of a JSON-level tree: keys without flags + flags."""
    out = ['(']
    for k, v in d.items():
        base, c, a = k, '-', '-'
        if '__array-' in base:
            base, dt = base.rsplit('__array-', 1)
            a = 'a' + dt
        if base.endswith('__complex'):
            base = base[:-len('__complex')]
            c = 'c'
        out.append('K' + esc(base))
        if isinstance(v, dict):
            out.append(jline(v))
        else:
            kind = ('null' if v is None else 'bool' if isinstance(v, bool) else
                    'str' if isinstance(v, str) else
                    'list' if isinstance(v, list) else 'num')
            out.append(f'J{c}{a}:{kind}')
    out.append(')')
    return ' '.join(out)


# --------------------------------------------------------------------------
def suite_class(ctx):
    import emg3d
    rng = ctx.nprng('class')
    cn = Canon(emg3d)
    objs = gen_objects(emg3d, rng)
    bad = []
    for cls, lst in objs.items():
        for i, x in enumerate(lst):
            with warnings.catch_warnings():
                warnings.simplefilter('ignore')
                d = x.to_dict()
                y = type(x).from_dict(
                    x.to_dict(copy=True) if cls != 'Simulation'
                    else x.to_dict(what='computed', copy=True))
            a, b = cn.line(y), cn.line(x)
            eq = True
            if hasattr(type(x), '__eq__') and cls not in ('Survey',
                                                          'Simulation'):
                eq = bool(x == y)
            if a != b or not eq:
                bad.append((cls, i, diff(a, b)))
                ctx.violation('from-dict-not-inverse',
                              f'{cls}[{i}]: from_dict(to_dict(x)) differs '
                              f'from x: {diff(a, b)}',
                              {'class': cls, 'variant': i})
            del d
            ctx.count(key=('class', cls, i))
    ctx.cov['classes'] = {k: len(v) for k, v in objs.items()}
    reg = sorted(emg3d.utils._KNOWN_CLASSES)
    missing = [c for c in reg if c not in objs]
    ctx.oblige('hypothesis of des_non_ser: from_dict(to_dict(x)) == x for '
               f'instances of every registered class ({len(reg)} classes)',
               'correspondence', not bad and not missing,
               str(bad[:2])[:600] + str(missing))
    return bad


def diff(a, b):
    ta, tb = a.split(), b.split()
    for i, (x, y) in enumerate(zip(ta, tb)):
        if x != y:
            return f'token {i}: {" ".join(ta[max(0,i-3):i+2])} | ' \
                   f'{" ".join(tb[max(0,i-3):i+2])}'
    return f'length {len(ta)} vs {len(tb)}: {" ".join(ta[len(tb)-2:len(tb)+3])} | {" ".join(tb[len(ta)-2:len(ta)+3])}'


# --------------------------------------------------------------------------
def strip_meta(d):
    return {k: v for k, v in d.items()
            if k not in ('_version', '_date', '_format')}


def suite_files(ctx):
    import emg3d
    rng = ctx.nprng('files')
    cn = Canon(emg3d)
    known = ' '.join(sorted(emg3d.utils._KNOWN_CLASSES))
    objs = gen_objects(emg3d, rng)
    pool = [o for k, v in objs.items() if k != 'Simulation' for o in v]
    tmp = os.path.join(common.CACHE, f'c17-{os.getpid()}')
    shutil.rmtree(tmp, ignore_errors=True)
    os.makedirs(tmp)
    bad = []
    nv0 = len(ctx.violations)
    lines, meta = [], []
    try:
        cases = []
        # every instance on its own, in every format
        for cls, lst in objs.items():
            for i, x in enumerate(lst):
                cases.append((f'{cls}[{i}]', {'obj': x}))
        ntree = 30 if ctx.thorough else 10
        for t in range(ntree):
            cases.append((f'tree{t}', gen_tree(
                rng, int(rng.integers(1, 5)), pool if t % 3 else [],
                allow_empty=(t % 4 == 0))))
        # names with a leading underscore (as the meta data emg3d adds itself)
        cases.append((f'tree{3*ntree}', {
            '_meta': {'_w': rng.standard_normal(3), 'b': 1.5, '_n': None},
            '_weights': rng.standard_normal((2, 2)), 'a': 'x', '_': 3}))
        import contextlib
        import io as _io
        sink = _io.StringIO()
        for name, data in cases:
            # the root group of an HDF5 file is not order-tracked (h5py lists
            # it by name); Python dict equality ignores order, so the top
            # level is generated in sorted order and everything below is
            # compared with order
            data = {k: data[k] for k in sorted(data)}
            src = cn.line(data)
            for fmt in FMTS:
                fn = os.path.join(tmp, f'x.{fmt}')
                with warnings.catch_warnings():
                    warnings.simplefilter('ignore')
                    try:
                        emg3d.save(fn, **data, verb=0)
                        out = strip_meta(emg3d.load(fn, verb=0))
                        res = cn.line(out)
                    except Exception as e:      # noqa
                        res = f'ERROR {type(e).__name__}: {e}'
                lines.append(f'io load {fmt} {known} | {src}')
                meta.append((name, fmt, 'load', src, res))
                ctx.count(key=('load', name, fmt))
                # convert to the two other formats and load again
                if name.startswith('tree') and not ctx.thorough and \
                        int(name[4:]) % 3:
                    continue
                for fmt2 in FMTS:
                    if fmt2 == fmt or res.startswith('ERROR'):
                        continue
                    fn2 = os.path.join(tmp, f'y.{fmt2}')
                    with warnings.catch_warnings():
                        warnings.simplefilter('ignore')
                        try:
                            with contextlib.redirect_stdout(sink):
                                emg3d.io.convert(fn, fn2, verb=0)
                            out2 = strip_meta(emg3d.load(fn2, verb=0))
                            res2 = cn.line(out2)
                        except Exception as e:      # noqa
                            res2 = f'ERROR {type(e).__name__}: {e}'
                    # model: load(save_fmt2(load(save_fmt(x))))
                    lines.append(f'io load {fmt} {known} | {src}')
                    meta.append((name, f'{fmt}->{fmt2}', 'convert', src, res2))
                    ctx.count(key=('convert', name, fmt, fmt2))
        out = common.run_driver(lines, timeout=900)
        # second stage for conversions: feed the model's first-stage result
        lines2, idx2 = [], []
        for i, ((name, fmt, kind, src, res), o) in enumerate(zip(meta, out)):
            if kind == 'convert':
                fmt2 = fmt.split('->')[1]
                lines2.append(f'io load {fmt2} {known} | {o}')
                idx2.append(i)
        out2 = common.run_driver(lines2, timeout=900) if lines2 else []
        for i, o in zip(idx2, out2):
            out[i] = o
        seen = set()
        for (name, fmt, kind, src, res), o in zip(meta, out):
            if norm(res) == norm(o) == norm(src):
                continue
            if norm(res) == norm(o):
                # model and code agree but the content changed: a limitation
                what = limitation(src, res)
                key = (what, fmt)
                if key not in seen:
                    seen.add(key)
                    ctx.violation(
                        what, f'{kind} {fmt}: the loaded content differs from '
                        f'what was saved ({diff(res, src)}) — model and code '
                        f'agree', {'case': name, 'format': fmt,
                                   'saved': src[:3000], 'loaded': res[:3000]})
                continue
            bad.append((name, fmt, kind, diff(res, o)))
            ctx.violation(
                'roundtrip-differs',
                f'{kind} {fmt} of {name}: loaded content differs from the '
                f'saved one: {diff(res, src) if not res.startswith("ERROR") else res[:200]}',
                {'case': name, 'format': fmt, 'saved': src[:3000],
                 'loaded': res[:3000], 'model': o[:3000]})
        # arrays without elements keep shape and dtype (hypothesis `hcod` of
        # load_save_json at its edge: tolist() of shape (0, 3) is [])
        shapes_ = [(0,), (0, 3), (2, 0), (2, 0, 3), (3, 1, 0), (2, 3), (1,),
                   (1, 0, 2), (4, 1, 2)]
        # model: the shape after tolist() / asarray (JShape.shapeOf o nest)
        jshape = {shp_: tuple(int(x) for x in o.split()) for shp_, o in zip(
            shapes_, common.run_driver(
                ['io jshape ' + ' '.join(map(str, s_)) for s_ in shapes_]))}
        for shp_ in shapes_:
            for dt in (float, complex, np.int64):
                arr0 = np.zeros(shp_, dtype=dt)
                for fmt in FMTS:
                    fn = os.path.join(tmp, f'e.{fmt}')
                    try:
                        emg3d.save(fn, a={'e': arr0, 'n': 1}, verb=0)
                        got = emg3d.load(fn, verb=0)['a']['e']
                        okk = isinstance(got, np.ndarray) and \
                            got.shape == shp_ and got.dtype == arr0.dtype
                        det = f'{type(got).__name__} shape ' \
                              f'{getattr(got, "shape", None)} dtype ' \
                              f'{getattr(got, "dtype", None)}'
                    except Exception as e:      # noqa
                        okk, det = False, f'{type(e).__name__}: {e}'
                    ctx.count(key=('empty-array', shp_, np.dtype(dt).name, fmt))
                    if fmt == 'json' and isinstance(got, np.ndarray) and \
                            got.shape != jshape[shp_]:
                        bad.append(('json shape vs model', shp_, got.shape,
                                    jshape[shp_]))
                    if not okk:
                        lost = fmt == 'json' and len(shp_) > 1 and \
                            isinstance(got, np.ndarray) and \
                            got.dtype == arr0.dtype and \
                            got.shape == shp_[:shp_.index(0)+1]
                        sig = 'json-empty-array-shape' if lost \
                            else 'roundtrip-differs'
                        if sig == 'roundtrip-differs':
                            bad.append(('empty array', shp_, fmt, det))
                        if (sig, 'corpus') not in seen:
                            seen.add((sig, 'corpus'))
                            ctx.violation(
                                sig, f'an array of shape {shp_} ('
                                f'{np.dtype(dt).name}) saved to .{fmt} is '
                                f'loaded as {det}',
                                {'shape': list(shp_), 'format': fmt,
                                 'dtype': np.dtype(dt).name})
        # to_file / from_file of the classes that have them
        for cls in ['Survey', 'Simulation']:
            for i, x in enumerate(objs[cls]):
                whats = ['plain', 'results', 'all', 'computed'] \
                    if cls == 'Simulation' else [None]
                # references from the fresh instance, before any to_file
                with warnings.catch_warnings():
                    warnings.simplefilter('ignore')
                    ref0 = cn.line(x.to_dict()) if cls == 'Simulation' \
                        else cn.line(x)
                    exp = {w: (cn.line(type(x).from_dict(
                        x.to_dict(what=w, copy=True))) if w else cn.line(x))
                        for w in whats}
                for fmt in FMTS:
                    for what in whats:
                        fn = os.path.join(tmp, f'z.{fmt}')
                        with warnings.catch_warnings():
                            warnings.simplefilter('ignore')
                            if what is None:
                                x.to_file(fn, verb=0)
                            else:
                                x.to_file(fn, what=what, verb=0)
                            y = type(x).from_file(fn, verb=0)
                            # to_file must not leak `what` into later
                            # serialisations (save(sim=sim), copy, to_dict)
                            after = cn.line(x.to_dict()) \
                                if cls == 'Simulation' else cn.line(x)
                            fn3 = os.path.join(tmp, f'w.{fmt}')
                            emg3d.save(fn3, sim=x, verb=0)
                            z = emg3d.load(fn3, verb=0)['sim']
                        if after != ref0:
                            bad.append(('what-leaks', cls, i, what))
                            ctx.violation(
                                'to-file-what-leaks',
                                f'after to_file(what={what!r}) a plain '
                                f'to_dict() of the same {cls} differs from '
                                f'before: {diff(after, ref0)}',
                                {'class': cls, 'variant': i, 'what': what,
                                 'format': fmt})
                        gz = cn.line(z)
                        ez = exp.get('computed', exp.get(None))
                        if gz != ez:
                            bad.append(('save-after-to_file', cls, i, what))
                            ctx.violation(
                                'to-file-what-leaks',
                                f'emg3d.save(sim=x) after x.to_file(what='
                                f'{what!r}) does not store what a fresh '
                                f'save stores: {diff(gz, ez)}',
                                {'class': cls, 'variant': i, 'what': what,
                                 'format': fmt})
                        if cls == 'Simulation':
                            # attributes, read from the instances themselves
                            fa, fb = sim_attrs(x), sim_attrs(y)
                            if fa != fb:
                                bad.append(('attrs', cls, i, fmt, what))
                                ctx.violation(
                                    'to-file-roundtrip',
                                    f'{cls}[{i}].to_file(.{fmt}, what={what})'
                                    f' -> from_file: attributes '
                                    f'{[(k, fa[k], fb[k]) for k in fa if fa[k] != fb[k]]}'
                                    f' (name, saved, loaded) differ',
                                    {'class': cls, 'variant': i,
                                     'format': fmt, 'what': what})
                        got = cn.line(y)
                        if got != exp[what]:
                            bad.append(('to_file', cls, i, fmt, what))
                            ctx.violation(
                                'to-file-roundtrip',
                                f'{cls}[{i}].to_file(.{fmt}, what={what}) -> '
                                f'from_file differs: {diff(got, exp[what])}',
                                {'class': cls, 'variant': i, 'format': fmt,
                                 'what': what})
                        ctx.count(key=('to_file', cls, i, fmt, what))
    finally:
        shutil.rmtree(tmp, ignore_errors=True)
    ctx.cov['file_cases'] = len(meta)
    ctx.oblige('correspondence: emg3d.save -> load (3 formats) and convert (6 '
               'pairs) on real files == IoT.load (IoT.save x) for every '
               'registered class and random nested trees; to_file/from_file; '
               'Simulation what=computed/results/all/plain', 'correspondence',
               not bad and not [v for v in ctx.violations[nv0:] if v['sig']
                                not in common.known_findings(ctx.pid)],
               str(bad[:2])[:600])
    return bad


def sim_attrs(sim):
    """Settings of a simulation as its attributes report them."""
    def nz(v):
        # value and kind (bool/int/real/str), not the NumPy or Python flavour
        if isinstance(v, np.ndarray) and v.ndim == 0:
            v = v[()]
        if isinstance(v, (bool, np.bool_)):
            return ('B', bool(v))
        if isinstance(v, (int, np.integer)):
            return ('I', int(v))
        if isinstance(v, (float, np.floating)):
            return ('R', float(v))
        if isinstance(v, (str, np.str_)):
            return ('S', str(v))
        return ('O', repr(v))
    out = {k: nz(getattr(sim, k, None)) for k in [
        'tol_forward', 'tol_gradient', 'max_workers', 'gridding', 'name',
        'info', 'receiver_interpolation', 'layered', 'file_dir', 'verb']}
    out['solver_opts'] = sorted(
        (k, nz(v)) for k, v in sim.solver_opts.items() if k != 'tol')
    return out


def limitation(src, res):
    ts, tr = src.split(), res.split()
    if len(tr) < len(ts) and '( )' in src:
        return 'npz-drops-empty-dict'
    if 'SNoneType' in src or 'SNone' in src:
        return 'nonetype-string-becomes-none'
    return 'documented-limitation-other'


# --------------------------------------------------------------------------
def suite_jkey(ctx):
    """String level of the JSON key flags: `_dict_dearray_decomp` /
    `_dict_array_comp` on one entry against JKey.flagKey / unflagKey, for
    adversarial keys (markers, fragments of markers, trailing underscores)."""
    from emg3d import io
    rng = ctx.nprng('jkey')
    frags = ['_', '__', '___', 'x', 'a', '-', 'Tx-1', '__array-', '__complex',
             '__array', '_complex', '__arr', 'ay-', 'array-', '_array-',
             '__comple', 'complex', 'float64', '>', '.', ' ', 'é']
    keys = ['x_', '_', '__', 'a__', 'n_', 'a__b', 'data_', '_x_', 'x___',
            'a__complex', 'a__array-float64', '__array-', '__complex_',
            'k__array', 'k_complex', 'q__arra', 'y-__', 'x__array-__complex']
    n = 400 if ctx.thorough else 120
    while len(keys) < n:
        keys.append(''.join(frags[int(i)] for i in rng.integers(
            0, len(frags), int(rng.integers(1, 5)))))

    def hexs(t):
        return '.'.join(str(ord(c)) for c in t) if t else '-'

    def unhex(w):
        return '' if w == '-' else ''.join(chr(int(x)) for x in w.split('.'))
    vals = [(False, None, 1.5), (False, None, 'txt'),
            (False, 'float64', np.arange(3.)),
            (False, 'int64', np.arange(2)),
            (False, 'float32', np.ones(2, dtype=np.float32)),
            (True, 'float64', np.arange(2) + 1j),
            (True, 'float64', 1 + 2j),
            (True, 'float32', np.ones(2, dtype=np.complex64))]
    lines, meta = [], []
    for k in keys:
        for cplx, dt, val in vals:
            lines.append(f'io jkey {hexs(k)} {int(cplx)} '
                         f'{hexs(dt) if dt else "none"}')
            meta.append((k, cplx, dt, val))
    out = common.run_driver(lines, timeout=300)
    bad = []
    nclean = 0
    for (k, cplx, dt, val), o in zip(meta, out):
        mf, mk, mc, md = o.split(' ')
        mf, mk, mc = unhex(mf), unhex(mk), mc == '1'
        md = None if md == 'none' else unhex(md)
        enc = io._dict_dearray_decomp({k: val})
        rf = list(enc)[0]
        clean = '__array-' not in k and '__complex' not in k
        nclean += clean
        try:
            dec = io._dict_array_comp(enc)
            rk = list(dec)[0]
            rv = dec[rk]
            got = (rk, bool(np.iscomplexobj(rv)),
                   rv.dtype.name if isinstance(rv, np.ndarray) and
                   rv.ndim else None)
            err = None
        except Exception as e:      # noqa
            got, err = None, f'{type(e).__name__}: {e}'
        why = None
        if rf != mf:
            why = f'flagged key {rf!r}, model {mf!r}'
        elif err is not None:
            # the code cannot read its own entry: the model must misparse too
            if (mk, mc, md) == (k, cplx, dt):
                why = f'reading the entry back raises {err}; the model ' \
                      f'recovers it'
        else:
            exp_dt = md if md is None or not mc else \
                {'float64': 'complex128', 'float32': 'complex64'}.get(md, md)
            if isinstance(val, complex) and mc and md:
                exp_dt = None       # a complex scalar comes back as a scalar
            if got[0] != mk or got[1] != mc or \
                    (got[2] != exp_dt and not (got[2] is None and
                                               np.ndim(rv) == 0)):
                why = f'read back as {got}, model {(mk, mc, md)}'
        if why is None and clean and err is None and \
                (got[0] != k or got[1] != cplx):
            why = f'key without marker not recovered: {got}'
        if why:
            bad.append((k, cplx, dt, why))
            if len(bad) <= 2:
                ctx.violation(
                    'json-key-flags',
                    f'JSON entry {k!r} ({type(val).__name__}'
                    f'{" " + str(getattr(val, "dtype", "")) if hasattr(val, "dtype") else ""}'
                    f'): {why}',
                    {'key': k, 'complex': cplx, 'dtype': dt})
        ctx.count(key=('jkey', k, cplx, dt))
    ctx.cov['jkey_cases'] = len(meta)
    ctx.cov['jkey_marker_free'] = nclean
    ctx.oblige('correspondence: _dict_dearray_decomp / _dict_array_comp on '
               'single entries == JKey.flagKey / unflagKey for adversarial '
               'keys (markers, fragments, trailing underscores); marker-free '
               'keys are recovered (theorem unflag_flag)', 'correspondence',
               not bad, str(bad[:2])[:500])
    return bad


def run(ctx):
    ctx.lean('Emg3dVerif.Props.JsonKey', THEOREMS)
    ctx.assumptions += [
        'h5py, numpy.savez_compressed/np.load and json are identities on the '
        'value classes they are given (checked end to end on real files)',
        'leaves are compared after canonicalisation: a Python scalar, a '
        'NumPy scalar and a 0-d array of the same kind and value are one '
        'value; arrays by dtype, shape and bytes',
        'well-formedness (documented): keys are strings without ">" / '
        '"__array" / "__complex", the string "NoneType" is not a value, no '
        'boolean arrays',
    ]
    b = []
    for s in (suite_tree, suite_class, suite_jkey, suite_files):
        b += s(ctx) or []
    if b and not ctx.violations:
        ctx.violation('model-correspondence-broken',
                      f'io tree functions no longer match the model '
                      f'({str(b[:1])[:300]})', {'first': str(b[:1])[:800]},
                      found_input=False)


def replay(ctx, rp):
    for s in (suite_class, suite_jkey, suite_files):
        s(ctx)
    for v in ctx.violations:
        print('replay:', v['sig'], v['what'][:200])
    return 1 if ctx.violations else 0
