"""C01 — reported solver success certifies the returned field.

Correspondence (T-trace): the real `emg3d.solve` is run over the configuration
product; wrappers record every residual norm the level-0 loop sees, every
callback / return of SciPy's Krylov solver; the recorded numbers are the
oracle answers of the Lean control model `SolveM.solve`, whose verdict (exit,
message, iteration counts, abs_error) must equal the info dict.

Monitor (numeric half, property oracle, independent of emg3d.core): residual
of the *returned / in-place* field recomputed with the harness's own sparse
assembly of the FIT operator (harness/fitasm.py, cross-checked against the
Lean spec), PEC, dtype, in-place update, zero source, error figures.
"""
import warnings

import os
import numpy as np

from harness import common, fitasm

THEOREMS = [
    'SolveM.exit_zero_iff_converged',
    'SolveM.mg_success_certifies',
    'SolveM.mg_failure_is_reported',
    'SolveM.mg_terminates_within_maxit',
    'SolveM.mgRun_last_residual',
    'SolveM.already_converged_noop',
    'SolveM.zero_source_zero_field',
    'SolveM.krylov_success_iff_info_zero',
    'SolveM.krylov_reports_returned_field',
    'SolveM.krylov_abort_is_failure',
    'SolveM.krylov_breakdown_is_failure',
    'SolveM.terminate_converged_iff',
    # clause PEC over the whole-cycle model (Props/CyclePEC.lean)
    'Emg.mgRun_frame',
    'Emg.mgRun_pec',
    'Emg.mgRun_keeps_boundary_value',
    'Emg.runTrace_allPec',
]


def fnum(x):
    x = float(x)
    if np.isnan(x):
        return 'nan'
    if np.isinf(x):
        return 'inf' if x > 0 else '-inf'
    n, d = x.as_integer_ratio()
    return f'{n}/{d}' if d != 1 else str(n)


class Rec:
    """Record residual norms and Krylov events of one solve call."""

    def __init__(self):
        import scipy.sparse.linalg as ssl
        from emg3d import solver as S
        self.S, self.ssl = S, ssl
        self.levels = []
        self.mg = []          # list of [r0, r1, ...] per level-0 multigrid call
        self.inner = []       # var.l2 left by the last completed coarse call
        self.events = []      # krylov events in order
        self.provided = None  # residual of the supplied field
        self.in_cb = False
        self.final = None
        self.saved = {}

    def __enter__(self):
        S, ssl = self.S, self.ssl
        rec = self
        self.saved = {'multigrid': S.multigrid, 'residual': S.residual}
        for n in ['bicgstab', 'cgs', 'gcrotmk']:
            self.saved[n] = getattr(ssl, n)

        def multigrid(model, sfield, efield, var, **kw):
            level = kw.get('level', 0)
            if level == 0:
                rec.mg.append([])
                rec.inner.append([float(var.l2)])
                rec.events.append(('P', rec.mg[-1], rec.inner[-1]))
            rec.levels.append(level)
            try:
                out = rec.saved['multigrid'](model, sfield, efield, var, **kw)
                if level > 0:
                    rec.inner[-1][0] = float(var.l2)
                return out
            finally:
                rec.levels.pop()

        def residual(model, sfield, efield, norm=False):
            out = rec.saved['residual'](model, sfield, efield, norm)
            if norm:
                if rec.levels and rec.levels[-1] == 0:
                    rec.mg[-1].append(float(out))
                elif not rec.levels:
                    if rec.in_cb:
                        rec.events.append(('C', float(out)))
                    elif rec.ret_seen:
                        rec.final = float(out)
                    else:
                        rec.provided = float(out)
            return out

        def mk(name):
            orig = rec.saved[name]

            def f(*a, **k):
                cb = k.get('callback')

                def cb2(x):
                    rec.in_cb = True
                    try:
                        return cb(x)
                    finally:
                        rec.in_cb = False
                k['callback'] = cb2
                out = orig(*a, **k)
                rec.ret_seen = True
                rec.events.append(('R', int(out[1])))
                return out
            return f
        self.ret_seen = False
        S.multigrid, S.residual = multigrid, residual
        for n in ['bicgstab', 'cgs', 'gcrotmk']:
            setattr(ssl, n, mk(n))
        return self

    def __exit__(self, *a):
        self.S.multigrid = self.saved['multigrid']
        self.S.residual = self.saved['residual']
        for n in ['bicgstab', 'cgs', 'gcrotmk']:
            setattr(self.ssl, n, self.saved[n])


def make_problem(rng, cfgp):
    import emg3d
    shp = cfgp['shape']
    if cfgp['stretched']:
        hs = [rng.uniform(0.8, 1.6, n)*25 for n in shp]
    else:
        hs = [np.ones(n)*25.0 for n in shp]
    grid = emg3d.TensorMesh(hs, origin=(0, 0, 0))
    case = cfgp['case']
    props = {'property_x': rng.uniform(0.3, 3.0, shp)}
    if case in ('HTI', 'triaxial'):
        props['property_y'] = rng.uniform(0.3, 3.0, shp)
    if case in ('VTI', 'triaxial'):
        props['property_z'] = rng.uniform(0.3, 3.0, shp)
    if cfgp['mu_r']:
        props['mu_r'] = rng.uniform(0.8, 1.5, shp)
    if cfgp['eps_r']:
        props['epsilon_r'] = rng.uniform(1, 10, shp)
    model = emg3d.Model(grid, mapping=cfgp['mapping'], **props)
    f = cfgp['frequency']
    sf = emg3d.Field(grid, frequency=f)
    if not cfgp['zero_source']:
        # a few interior edges (away from the outermost cells)
        for _ in range(3):
            i, j, k = (int(rng.integers(1, max(2, n-1))) for n in shp)
            comp = int(rng.integers(0, 3))
            arr = [sf.fx, sf.fy, sf.fz][comp]
            idx = [min(i, arr.shape[0]-2), min(j, arr.shape[1]-2),
                   min(k, arr.shape[2]-2)]
            idx = [max(1, v) for v in idx]
            if all(1 <= v < s_-1 for v, s_ in zip(idx, arr.shape)):
                arr[tuple(idx)] += (rng.uniform(0.5, 2) *
                                    (-(2j*np.pi*f*4e-7*np.pi) if f > 0
                                     else f*4e-7*np.pi))
        if not np.any(sf.field):
            sf.fx[0, 1, 1] = 1e-6 if shp[1] > 1 and shp[2] > 1 else 0
        # weak but non-zero sources (e.g. adjoint sources of tiny residuals)
        sf.field[:] = sf.field*cfgp.get("src_scale", 1.0)
        if cfgp.get('src_norm') and np.any(sf.field):
            sf.field[:] = sf.field*(cfgp['src_norm']/np.linalg.norm(sf.field))
    return grid, model, sf


def gen_cfg(rng, k):
    shp = [int(rng.choice([2, 3, 4, 5, 6, 8, 10, 12])) for _ in '123']
    while np.prod(shp) > 600:
        shp[int(rng.integers(0, 3))] = 4
    cyc = [None, 'F', 'V', 'W', 'F'][int(rng.integers(0, 5))]
    ssl = [False, False, 'bicgstab', 'cgs', 'gcrotmk'][int(rng.integers(0, 5))]
    if cyc is None and not ssl:
        ssl = 'bicgstab'
    sc = [0, 1, 2, 3, True, 1213, 32][int(rng.integers(0, 7))]
    lr = [0, 1, 2, 3, 4, 5, 6, 7, True, 1672][int(rng.integers(0, 10))]
    mode = ['fresh', 'fresh', 'supplied', 'supplied-good', 'zero-source',
            'zero-source-supplied', 'supplied-dirichlet', 'supplied-poor'][
                int(rng.integers(0, 8))]
    cfg = dict(
        shape=tuple(shp), stretched=bool(rng.integers(0, 2)),
        case=['isotropic', 'VTI', 'HTI', 'triaxial'][int(rng.integers(0, 4))],
        mu_r=bool(rng.integers(0, 4) == 0), eps_r=bool(rng.integers(0, 4) == 0),
        mapping=['Conductivity', 'Resistivity', 'LgConductivity'][
            int(rng.integers(0, 3))],
        frequency=float(rng.choice([1.0, 0.2, 5.0, -1.0, -3.0])),
        zero_source=mode.startswith('zero-source'),
        mode=mode, cycle=cyc, ssl=ssl, sc=sc, lr=lr,
        nu=[int(rng.choice([0, 0, 1])), int(rng.choice([1, 2])),
            int(rng.choice([1, 2])), int(rng.choice([1, 2]))],
        clevel=int(rng.choice([-1, -1, 1, 2])),
        tol=float(rng.choice([1e-3, 1e-5, 1e-6, 1e-8, 1e-10])),
        maxit=int(rng.choice([0, 1, 2, 3, 8, 50, 50])),
        return_info=True, seed=int(rng.integers(0, 2**31)),
        src_scale=float(rng.choice([1.0, 1.0, 1.0, 1e-9, 1e-14, 1e-22])))
    if cfg['maxit'] == 0 and (cfg['ssl'] == 'gcrotmk' or not cfg['ssl']):
        # maxit=0: SciPy's gcrotmk itself fails (UnboundLocalError inside
        # SciPy); plain multigrid ignores maxit=0 (runs until another
        # criterion stops it, possibly for long): both outside the property
        cfg['maxit'] = 1
    return cfg


def digits_of(x, true_pat):
    if x is True:
        return true_pat
    return [int(c) for c in str(abs(int(x)))]


def run_cfg(ctx, c):
    """Run the real solver on configuration c.  Returns (op line, observed
    string) or None if the run was decided by the monitors alone."""
    import emg3d
    rng = np.random.default_rng(c['seed'])
    grid, model, sf = make_problem(rng, c)
    supplied = None
    kw = {}
    if c['mode'] in ('supplied', 'supplied-good', 'zero-source-supplied',
                     'supplied-dirichlet', 'supplied-poor'):
        supplied = emg3d.Field(grid, frequency=c['frequency'])
        if c['mode'] == 'supplied-dirichlet':
            # a field with NON-zero tangential boundary values b that solves
            # the interior equations with those values:
            #   A_II e_I = s_I - A_IB b
            b = emg3d.Field(grid, frequency=c['frequency'])
            b.field[:] = rng.standard_normal(b.field.size)
            if c['frequency'] > 0:
                b.field[:] = b.field*(1 - 0.3j)
            m_int = fitasm.interior_mask(*grid.shape_cells)
            b.field[m_int] = 0
            # only the *far* boundary faces: the kernel writes a sigma-term
            # residual on the near ones, none on the far ones
            b.fx[:, 0, :] = 0
            b.fx[:, :, 0] = 0
            b.fy[0, :, :] = 0
            b.fy[:, :, 0] = 0
            b.fz[0, :, :] = 0
            b.fz[:, 0, :] = 0
            f = c['frequency']
            sval = 2j*np.pi*f if f > 0 else -f
            sig, mur, epsr = fitasm.model_arrays(model, grid)
            A = fitasm.assemble(*grid.h, sig, sval, mur, epsr)
            v = (A @ np.asarray(b.field))[m_int]
            # boundary values whose effect on the interior equations is as
            # large as the source itself
            b.field[:] = b.field * (np.linalg.norm(sf.field) /
                                    max(np.linalg.norm(v), 1e-300))
            s2 = emg3d.Field(grid, frequency=c['frequency'])
            rhs = np.asarray(sf.field) - A @ np.asarray(b.field)
            if c['frequency'] < 0:
                rhs = rhs.real
            s2.field[m_int] = rhs[m_int]
            with warnings.catch_warnings():
                warnings.simplefilter('ignore')
                good = emg3d.solve(model, s2, sslsolver=False,
                                   semicoarsening=False, linerelaxation=False,
                                   tol=min(c['tol']*1e-3, 1e-9), maxit=60,
                                   verb=-1)
            supplied.field[:] = good.field + b.field
        elif c['mode'] == 'supplied-poor':
            with warnings.catch_warnings():
                warnings.simplefilter('ignore')
                good = emg3d.solve(model, sf, sslsolver=False,
                                   semicoarsening=False, linerelaxation=False,
                                   tol=1e-7, maxit=60, verb=-1)
            supplied.field[:] = good.field*float(rng.choice([6.0, 30.0]))
        elif c['mode'] == 'supplied-good':
            with warnings.catch_warnings():
                warnings.simplefilter('ignore')
                good = emg3d.solve(model, sf, sslsolver=False,
                                   semicoarsening=False, linerelaxation=False,
                                   tol=min(c['tol']*1e-3, 1e-9), maxit=60,
                                   verb=-1)
            supplied.field[:] = good.field
        else:
            supplied.field[:] = rng.standard_normal(supplied.field.size)*1e-9
            if c['frequency'] > 0:
                supplied.field[:] = supplied.field*(1+0.5j)
        kw['efield'] = supplied
    before = None if supplied is None else supplied.field.copy()
    with Rec() as rec, warnings.catch_warnings():
        warnings.simplefilter('ignore')
        try:
            out = emg3d.solve(
                model, sf, sslsolver=c['ssl'], semicoarsening=c['sc'],
                linerelaxation=c['lr'], cycle=c['cycle'], verb=-1,
                maxit=c['maxit'], clevel=c['clevel'], nu_init=c['nu'][0],
                nu_pre=c['nu'][1], nu_coarse=c['nu'][2], nu_post=c['nu'][3],
                tol=c['tol'], return_info=True, **kw)
        except Exception as e:
            ctx.violation('solve-raises', f'{type(e).__name__}: {e}',
                          {'config': c})
            return None
    if supplied is None:
        if not (isinstance(out, tuple) and len(out) == 2):
            ctx.violation('return-arity', 'fresh field + return_info must '
                          'return (efield, info)', {'config': c})
            return None
        ef, info = out
    else:
        if isinstance(out, tuple):
            ctx.violation('return-arity', 'supplied field must be updated in '
                          'place; only info returned', {'config': c})
            return None
        ef, info = supplied, out
    mon = monitors(ctx, c, grid, model, sf, ef, info, before,
                   ran_krylov=rec.ret_seen)
    if mon:
        ctx.violation(mon[0], mon[1], {'config': c, 'info': {
            k: (v if isinstance(v, str) else float(v)) for k, v in
            info.items() if k in ('exit', 'exit_message', 'abs_error',
                                  'rel_error', 'ref_error', 'tol', 'it_mg',
                                  'it_ssl')}})
    # model op
    refe = float(info['ref_error'])
    zero = not (np.linalg.norm(sf.field) >= 100*np.finfo(float).tiny)
    mc = max(len(digits_of(c['sc'], [1, 2, 3])),
             len(digits_of(c['lr'], [4, 5, 6])))
    maxit = c['maxit']
    if c['ssl'] and c['cycle'] is not None:
        maxit = mc
    tolref = float(c['tol'])*np.float64(info['ref_error'])
    divref = 10*np.float64(info['ref_error'])
    if zero:
        tolref = divref = float('nan')
    evs = []
    mgs = ''
    if c['ssl']:
        for e in rec.events:
            if e[0] == 'P':
                evs.append('P:' + fnum(e[2][0]) + ':' +
                           ':'.join(fnum(x) for x in e[1]))
            elif e[0] == 'C':
                evs.append('C:' + fnum(e[1]))
            else:
                evs.append(f'R:{e[1]}:' + fnum(
                    rec.final if rec.final is not None else float('nan')))
    elif rec.mg:
        mgs = ' '.join(fnum(x) for x in rec.mg[0])
    line = (f"solve {int(supplied is None)} {int(zero)} "
            f"{int(c['cycle'] is not None)} {int(bool(c['ssl']))} {maxit} {mc} "
            f"{fnum(tolref)} {fnum(divref)} "
            f"{fnum(info['ref_error'])} "
            f"{fnum(rec.provided if rec.provided is not None else 1.0)} | "
            f"{mgs} | {' '.join(evs)}")
    msg = info['exit_message']
    for s in ['bicgstab', 'cgs', 'gcrotmk']:
        if msg.startswith(f'Error in {s}'):
            msg = 'Error in sslsolver'
    obs = (f"{int(info['exit'])} | {msg} | {int(info['it_mg'])} "
           f"{int(info['it_ssl'])} | {fnum(info['abs_error'])} | "
           f"{int(bool(rec.mg) or bool(rec.events))} "
           f"{int(zero)} {int(supplied is None)}")
    return line, obs


def monitors(ctx, c, grid, model, sf, ef, info, before, ran_krylov=False):
    """The clauses of C01 evaluated directly on the real outcome."""
    tol = c['tol']
    refe = float(np.linalg.norm(sf.field))
    # dtype
    want = np.float64 if c['frequency'] < 0 else np.complex128
    if ef.field.dtype != want:
        return ('dtype', f'returned field has dtype {ef.field.dtype} for '
                f'frequency {c["frequency"]}')
    # PEC
    tb = max(np.abs(ef.fx[:, 0, :]).max(), np.abs(ef.fx[:, -1, :]).max(),
             np.abs(ef.fx[:, :, 0]).max(), np.abs(ef.fx[:, :, -1]).max(),
             np.abs(ef.fy[0]).max(), np.abs(ef.fy[-1]).max(),
             np.abs(ef.fy[:, :, 0]).max(), np.abs(ef.fy[:, :, -1]).max(),
             np.abs(ef.fz[0]).max(), np.abs(ef.fz[-1]).max(),
             np.abs(ef.fz[:, 0]).max(), np.abs(ef.fz[:, -1]).max())
    if tb != 0:
        return ('pec', f'tangential boundary value {tb} in the result')
    zero = refe < 100*np.finfo(float).tiny
    if zero:
        if np.any(ef.field != 0):
            return ('zero-source-field', 'zero source, but the field '
                    '(returned or supplied in place) is not all zero')
        if info['exit'] != 0 or not (info['abs_error'] == 0):
            return ('zero-source-report', f"zero source: exit={info['exit']} "
                    f"abs_error={info['abs_error']}")
        return None
    own, own_b = fitasm.residual_norm(model, sf, ef)
    # error figures describe the returned field (whenever success is reported)
    if info['exit'] == 0 and np.isfinite(own):
        if abs(info['abs_error'] - own) > 1e-6*own + 1e-11*refe:
            return ('abs-error-not-of-returned-field',
                    f"reported abs_error {info['abs_error']:.6e}, residual of "
                    f"the returned field (independent assembly) {own:.6e}")
    if abs(info['ref_error'] - refe) > 4*np.finfo(float).eps*refe:
        return ('ref-error', f"ref_error {info['ref_error']} != |s| {refe}")
    if not (info['rel_error'] == info['abs_error']/info['ref_error'] or
            (np.isnan(info['rel_error']) and np.isnan(info['abs_error']))):
        return ('rel-error', 'rel_error != abs_error/ref_error')
    if info['exit'] == 0:
        if not own < tol*refe*(1+1e-6):
            if c['maxit'] == 0 and c['ssl'] and info['it_ssl'] == 0 and \
                    ran_krylov:
                return ('krylov-maxit0-reports-success',
                        f'maxit=0 with {c["ssl"]}: exit 0 "CONVERGED" but '
                        f'|s - A e| = {own:.3e} >= tol*|s| = {tol*refe:.3e}')
            return ('success-but-residual-large',
                    f'exit 0 ({info["exit_message"]}) but |s - A e| = '
                    f'{own:.6e} >= tol*|s| = {tol*refe:.6e}')
    else:
        if not info['exit_message']:
            return ('failure-without-message', 'exit 1 with empty message')
    if info['exit'] == 0 and info['exit_message'] != 'CONVERGED':
        return ('exit-message', 'exit 0 but message is not CONVERGED')
    if info['exit'] != 0 and own < tol*refe*(1-1e-6) and c['maxit'] > 0 \
            and 'zero' not in info['exit_message']:
        # reaching the tolerance but reporting failure is allowed by the
        # statement (only the converse is forbidden); count, do not flag
        ctx.cov['converged_but_reported_failure'] = \
            ctx.cov.get('converged_but_reported_failure', 0) + 1
    return None


def run(ctx):
    ctx.lean('Emg3dVerif.Props.CyclePEC', THEOREMS)
    ctx.assumptions += [
        'what one multigrid cycle / one Krylov step does to the residual '
        'norm is an oracle (recorded residual norms); that a small residual '
        'is reached is checked per run by the independent assembly (numeric '
        'half). Clause PEC is proved for plain multigrid on the whole-cycle '
        'model (Emg.mgRun_pec; model tied to solver.multigrid by the cycle '
        'suite of C03); for the Krylov path it is monitored per run',
        "SciPy's recurrence residual ~ true residual (monitored)",
    ]
    rng = ctx.nprng('cfg')
    n = 1500 if ctx.thorough else 160
    corpus = [
        # Krylov exit between callbacks; zero source with supplied field;
        # supplied good field (regressions of the fix: commits)
        dict(gen_cfg(np.random.default_rng(1), 0), shape=(8, 8, 8),
             cycle=None, ssl='bicgstab', tol=1e-4, maxit=50, mode='fresh',
             zero_source=False, sc=0, lr=0, frequency=1.0, case='isotropic',
             mu_r=False, eps_r=False, stretched=False),
        dict(gen_cfg(np.random.default_rng(2), 0), mode='zero-source-supplied',
             zero_source=True),
        dict(gen_cfg(np.random.default_rng(3), 0), mode='supplied-good',
             zero_source=False, cycle='F', ssl=False),
        # supplied field with non-zero boundary values that solves the
        # interior equations (PEC zeroing must precede the residual test)
        dict(gen_cfg(np.random.default_rng(1), 0), shape=(4, 5, 6),
             mode='supplied-dirichlet', zero_source=False, cycle='F',
             ssl=False, tol=1e-5, maxit=50, frequency=1.0, sc=0, lr=0),
        dict(gen_cfg(np.random.default_rng(1), 0), shape=(4, 5, 6),
             mode='supplied-dirichlet', zero_source=False, cycle=None,
             ssl='cgs', tol=1e-5, maxit=50, frequency=-1.0, sc=0, lr=0),
        # poor start whose residual exceeds the source norm, Krylov
        dict(gen_cfg(np.random.default_rng(1), 0), shape=(6, 5, 4),
             mode='supplied-poor', zero_source=False, cycle=None,
             ssl='bicgstab', tol=1e-6, maxit=50, frequency=1.0, sc=0, lr=0),
        # known finding: Krylov with maxit=0
        dict(gen_cfg(np.random.default_rng(4), 0), shape=(4, 4, 4),
             mode='fresh', zero_source=False, cycle='F', ssl='bicgstab',
             maxit=0, tol=1e-6),
    ]
    # Krylov break-down window: SciPy's bicgstab / cgs give up (info = -10)
    # when |<r0, r>| < eps^2, i.e. for |s| ~ sqrt(5e-33 / tol) just when the
    # residual comes within reach of the tolerance - and a preconditioner
    # run may already have noted "CONVERGED" (regression of f9ccc85)
    rngw = ctx.nprng('window')
    for k in range(240 if ctx.thorough else 40):
        tolw = float(10**rngw.uniform(-4, -1.5))
        corpus.append(dict(
            gen_cfg(rngw, k), mode='fresh', zero_source=False,
            shape=[(4, 4, 8), (8, 4, 4), (8, 8, 8), (4, 6, 4)][k % 4],
            ssl=['cgs', 'bicgstab'][k % 2], cycle=['W', 'V', 'F'][k % 3],
            tol=tolw, maxit=60, src_scale=1.0, clevel=-1,
            src_norm=float(np.sqrt(5e-33/tolw)*10**rngw.uniform(-0.7, 0.7))))
    suite_breakdown(ctx)
    suite_single(ctx)
    pending = []
    hist = {}
    for k in range(n + len(corpus)):
        c = corpus[k] if k < len(corpus) else gen_cfg(rng, k)
        r = run_cfg(ctx, c)
        key = (c['cycle'], c['ssl'], c['mode'])
        hist[key] = hist.get(key, 0) + 1
        if r:
            pending.append((c, *r))
    out = common.run_driver([p[1] for p in pending], jobs=8)
    bad = []
    exits = {}
    for (c, line, obs), o in zip(pending, out):
        ctx.count(key=line)
        m = obs.split(' | ')[1]
        exits[m] = exits.get(m, 0) + 1
        if o != obs:
            bad.append((c, line, obs, o))
    ctx.cov['config_histogram(cycle,ssl,mode)'] = {
        str(k): v for k, v in sorted(hist.items(), key=str)}
    ctx.cov['exit_message_histogram'] = exits
    ctx.cov['traces_compared'] = len(pending)
    ctx.oblige('correspondence: info dict of emg3d.solve == SolveM.solve on '
               'the recorded residual norms / Krylov events', 'correspondence',
               not bad, f'{len(bad)} of {len(pending)} differ; first: '
               f'{[(b[2], b[3]) for b in bad[:2]]}')
    if pending:
        ctx.samples.append({'config': pending[0][0],
                            'model_op': pending[0][1][:300],
                            'observed': pending[0][2]})
    if bad and not ctx.violations:
        c, line, obs, o = bad[0]
        ctx.violation(
            'control-model-disagrees',
            'solver bookkeeping differs from the control model '
            f'(real: "{obs}", model: "{o}"), while residual, PEC, dtype and '
            'error figures of every run still satisfy the statement',
            {'config': c, 'model_op': line, 'observed': obs, 'model': o},
            found_input=False)


def suite_breakdown(ctx):
    """Stored inputs on which a Krylov break-down follows a preconditioner
    run that noted CONVERGED (defect f9ccc85): success must certify the
    field, whatever the solver's bookkeeping says."""
    import json
    import emg3d
    from harness import fitasm
    bad = []
    here = os.path.dirname(os.path.abspath(__file__))
    for name in ['c01_breakdown_1.json', 'c01_breakdown_2.json']:
        c = json.load(open(os.path.join(here, name)))
        grid = emg3d.TensorMesh([np.array(c['hx']), np.array(c['hy']),
                                 np.array(c['hz'])], (0, 0, 0))
        model = emg3d.Model(grid, property_x=np.array(c['property_x']).reshape(
            grid.shape_cells, order='F'))
        with warnings.catch_warnings():
            warnings.simplefilter('ignore')
            sf = emg3d.get_source_field(
                grid, emg3d.TxElectricDipole(tuple(c['src'])), c['frequency'])
            sf.field[:] = sf.field*c['scale']
            ef, info = emg3d.solve(
                model, sf, sslsolver=c['sslsolver'], cycle=c['cycle'],
                tol=c['tol'], maxit=c['maxit'], verb=-1, return_info=True)
        rin, _ = fitasm.residual_norm(model, sf, ef)
        ref = float(np.linalg.norm(sf.field))
        ctx.count(key=('breakdown', name, info['exit']))
        if info['exit'] == 0 and not rin < c['tol']*ref*(1 + 1e-6):
            bad.append((name, rin/ref, c['tol']))
            ctx.violation(
                'success-without-convergence',
                f'{c["sslsolver"]} with {c["cycle"]}-cycle preconditioner, '
                f'grid {grid.shape_cells}, |s| = {ref:.3e}, tol = '
                f'{c["tol"]:.3e}: exit 0 "{info["exit_message"]}" but the '
                f'residual of the returned field (independent assembly) is '
                f'{rin/ref:.3e} x |s|',
                {'stored_input': name})
    ctx.oblige('monitor: stored break-down inputs (harness/c01_breakdown_*.'
               'json): reported success implies residual < tol |s|',
               'monitor', not bad, str(bad))
    return bad


def suite_single(ctx):
    """A start field supplied in single precision (complex64 / float32): it
    is refused, or everything C01 promises holds for what comes back (the
    source's type included)."""
    import emg3d
    from harness import fitasm
    rng = ctx.nprng('single')
    bad = []
    for t in range(8 if ctx.thorough else 4):
        lap = t % 2 == 1
        c = dict(gen_cfg(rng, t), shape=(4, 6, 4), zero_source=False,
                 stretched=True, frequency=-1.0 if lap else 1.0,
                 src_scale=1.0)
        grid, model, sf = make_problem(np.random.default_rng(c['seed']), c)
        start = (rng.standard_normal(sf.field.size)*1e-9).astype(
            np.float32 if lap else np.complex64)
        ef = emg3d.Field(grid, start)
        ssl, cyc = [('bicgstab', 'F'), (False, 'F'), ('cgs', None),
                    ('bicgstab', 'V')][t % 4]
        tol = 1e-6
        try:
            with warnings.catch_warnings():
                warnings.simplefilter('ignore')
                info = emg3d.solve(model, sf, efield=ef, sslsolver=ssl,
                                   cycle=cyc, tol=tol, maxit=40, verb=-1,
                                   return_info=True)
        except (ValueError, TypeError):
            ctx.count(key=('single', t, 'refused'))
            continue
        rin, rbd = fitasm.residual_norm(model, sf, ef)
        ref = float(np.linalg.norm(sf.field))
        ctx.count(key=('single', t, info['exit']))
        if info['exit'] == 0 and (not rin < tol*ref*(1 + 1e-6) or
                                  ef.field.dtype != sf.field.dtype):
            bad.append((t, ssl, cyc, rin/ref, str(ef.field.dtype)))
            ctx.violation(
                'success-without-convergence',
                f'supplied start field of dtype {start.dtype} '
                f'(sslsolver={ssl}, cycle={cyc}): exit 0 '
                f'"{info["exit_message"]}", the field has dtype '
                f'{ef.field.dtype} (source: {sf.field.dtype}) and residual '
                f'{rin/ref:.3e} x |s| (tol {tol:.0e})',
                {'single_precision_case': t})
    ctx.oblige('monitor: a single-precision start field is refused or the '
               'result meets the statement (residual, type of the source)',
               'monitor', not bad, str(bad[:2]))
    return bad


def replay(ctx, rp):
    if rp['replay'].get('single_precision_case') is not None:
        suite_single(ctx)
        for v in ctx.violations:
            print('replay:', v['sig'], v['what'])
        return 1 if ctx.violations else 0
    if rp['replay'].get('stored_input'):
        suite_breakdown(ctx)
        for v in ctx.violations:
            print('replay:', v['sig'], v['what'])
        return 1 if ctx.violations else 0
    c = rp['replay'].get('config')
    if not c:
        print('replay: no input recorded')
        return 1
    c['shape'] = tuple(c['shape'])
    run_cfg(ctx, c)
    for v in ctx.violations:
        print('replay:', v['sig'], v['what'])
    return 1 if ctx.violations else 0
