"""C07 — the adjoint-state gradient is the derivative of the data misfit.

Suites
  exact : the Python source of `maps.interp_edges_to_vol_averages` executed on
          exact rationals == Lean `Grad.toVolX/Y/Z` (gather form; the theorem
          `toVolX_adjoint` makes it the transpose of the cell -> edge
          averaging).
  glue  : on real simulations (stretched grids, six mappings, four anisotropy
          cases, mixed sources / receivers, relative receivers, missing data,
          scalar / array noise, explicit standard deviation): weights,
          residual, misfit; the adjoint source field == P^T conj(w r) (pairing
          with random fields through `get_receiver`); the gradient ==
          the pipeline of the model applied to the stored forward and
          back-propagated fields (Re(b s mu0 e) -> Grad.toVol -> Grad.collect
          -> chain factor of C14).
  fd    : central differences of the misfit at two step sizes in random
          directions: observed order of convergence and agreement with
          <gradient, direction> (the identity proved in
          `Adj.gradient_is_derivative`).
"""
import warnings
from fractions import Fraction as Fr

import numpy as np

from harness import common
from harness.exactnum import Q, exact_fn, fmt_fr, qarr
from harness.gradworld import World, MAPS, CASES

THEOREMS = [
    'Adj.misfit_expansion', 'Adj.gradient_is_derivative', 'Adj.jtvec_adjoint',
    'Adj.jvec_is_derivative', 'Adj.resolvent', 'Grad.collect_stack_adjoint',
    'Grad.toVolX_adjoint', 'Grad.avgX_interior',
]


def qline(a):
    return " ".join(fmt_fr(v.re) for v in np.asarray(a, dtype=object).ravel(order='F'))


def suite_exact(ctx):
    import emg3d
    rng = ctx.nprng('exact')
    f = exact_fn(emg3d.maps, 'interp_edges_to_vol_averages', deps=())
    lines, got = [], []
    n = 40 if ctx.thorough else 14
    for t in range(n):
        nx, ny, nz = (int(v) for v in rng.integers(1, 5, 3))
        if t < 4:
            nx, ny, nz = [(1, 1, 1), (2, 1, 1), (1, 3, 2), (2, 2, 2)][t]
        vol = qarr((nx, ny, nz), rng, cplx=False, positive=True)
        ex = qarr((nx, ny+1, nz+1), rng, cplx=False)
        ey = qarr((nx+1, ny, nz+1), rng, cplx=False)
        ez = qarr((nx+1, ny+1, nz), rng, cplx=False)
        ox = qarr((nx, ny, nz), rng, cplx=False)*0
        oy, oz = ox.copy(), ox.copy()
        f(ex, ey, ez, vol, ox, oy, oz)
        lines.append(f"tovol {nx} {ny} {nz} | {qline(vol)} | {qline(ex)} | "
                     f"{qline(ey)} | {qline(ez)}")
        got.append(f"{qline(ox)} | {qline(oy)} | {qline(oz)}")
        ctx.count(key=('tovol', nx, ny, nz, t))
    out = common.run_driver(lines, timeout=600)
    bad = [(ln[:80], g[:80], o[:80]) for ln, g, o in zip(lines, got, out)
           if " ".join(g.split()) != " ".join(o.split())]
    ctx.oblige('correspondence: interp_edges_to_vol_averages source on exact '
               'rationals == Grad.toVolX/Y/Z (shapes 1..4 per direction)',
               'correspondence', not bad, str(bad[:1])[:400])
    ctx.samples.append({'tovol': lines[0][:200], 'model': out[0][:100]})
    return bad


# --------------------------------------------------------------------------
def to_vol(vol, ex, ey, ez):
    """The gather form of the model, in floats (numpy)."""
    nx, ny, nz = vol.shape

    def hits(N, n, c):
        return int(max(n-1, 0) == c) + int(min(N-1, n) == c)
    Hy = np.array([[hits(ny, n, c) for c in range(ny)] for n in range(ny+1)],
                  float)
    Hz = np.array([[hits(nz, n, c) for c in range(nz)] for n in range(nz+1)],
                  float)
    Hx = np.array([[hits(nx, n, c) for c in range(nx)] for n in range(nx+1)],
                  float)
    ox = vol*np.einsum('iab,aj,bk->ijk', ex, Hy, Hz)/4
    oy = vol*np.einsum('ajb,ai,bk->ijk', ey, Hx, Hz)/4
    oz = vol*np.einsum('abk,ai,bj->ijk', ez, Hx, Hy)/4
    return ox, oy, oz


class ExitRec:
    """Record the exit status of every solver call (in-process)."""

    def __init__(self, emg3d):
        self.solver = emg3d.solver
        self.exits = []

    def __enter__(self):
        self.orig = self.solver.solve

        def rec(*a, **k):
            out = self.orig(*a, **k)
            if isinstance(out, tuple) and isinstance(out[-1], dict):
                self.exits.append(out[-1].get('exit'))
            return out
        self.solver.solve = rec
        return self

    def __exit__(self, *a):
        self.solver.solve = self.orig

    @property
    def ok(self):
        return all(e == 0 for e in self.exits)


def converged(sim):
    for name in ['efield_info', 'bfield_info']:
        if not hasattr(sim, '_dict_'+name):
            continue
        for s, f in sim._srcfreq:
            info = sim._dict_get(name, s, f)
            if isinstance(info, dict) and info['exit'] != 0:
                return False
    return True


def chain_factor(world):
    """d sigma / d x of every component (from the map itself)."""
    x = world.x0()
    fac = np.ones(x.shape)
    for i in range(x.shape[0]):
        world.mp.derivative_chain(fac[i], x[i])
    return fac


def suite_glue(ctx):
    import emg3d
    rng = ctx.nprng('glue')
    bad = []
    nv0 = len(ctx.violations)
    nw = 12 if ctx.thorough else 5
    skipped = 0
    for t in range(nw):
        case = list(CASES)[(t + ctx_seed(ctx)) % 4]
        mapping = MAPS[(t*5 + ctx_seed(ctx)) % 6]
        noise = ['scalar', 'array', 'std', 'relative-only', 'unit'][t % 5]
        shape = [(8, 8, 8), (16, 8, 8), (8, 8, 8), (8, 8, 16)][t % 4]
        edge = t % 3 == 0
        w = World(emg3d, rng, case, mapping, shape=shape,
                  relative=bool(t % 2), noise=noise, edge_rec=edge)
        sim = w.sim()
        with warnings.catch_warnings():
            warnings.simplefilter('ignore')
            m0 = float(sim.misfit)
            g = np.array(sim.gradient, copy=True)
        tag = (case, mapping, noise, shape, bool(t % 2), edge)
        # the adjoint sources are finite whatever the solver then does with
        # them (data without a finite residual are skipped, as in the misfit)
        nonfin = [(sk, fk) for sk in w.survey.sources
                  for fk in w.survey.frequencies
                  if not np.all(np.isfinite(sim._get_rfield(sk, fk).field))]
        if nonfin or not np.isfinite(m0):
            bad.append(('adjoint source not finite', tag, nonfin))
            ctx.violation(
                'adjoint-source-not-finite',
                f'world {tag}: the adjoint source of {nonfin} contains '
                f'non-finite values (misfit {m0!r}); data with a non-finite '
                f'residual do not enter the misfit', {'tag': repr(tag)})
            continue
        if not converged(sim):
            skipped += 1
            continue
        obs = sim.data.observed.data
        syn = sim.data.synthetic.data
        # data without a finite residual (missing observation, or a receiver
        # in the outermost cell: NaN response) do not enter the misfit
        fin = np.isfinite(obs) & np.isfinite(syn)
        # --- weights, residual, misfit
        sd = w.survey.standard_deviation.data
        if noise == 'std':
            sd_exp = w.survey.data.standard_deviation.data
        else:
            nf = np.asarray(w.survey.noise_floor if w.survey.noise_floor
                            is not None else 0.0, float)
            re = np.asarray(w.survey.relative_error if
                            w.survey.relative_error is not None else 0.0, float)
            sd_exp = np.sqrt(nf**2 + (re*np.abs(obs))**2)
        wt = sim.data.weights.data
        ok = np.allclose(sd[fin], np.broadcast_to(sd_exp, sd.shape)[fin],
                         rtol=1e-12)
        ok &= np.allclose(wt[fin], sd[fin]**-2, rtol=1e-12)
        ok &= np.allclose(sim.data.residual.data[fin], (syn-obs)[fin])
        mexp = float(np.sum(wt[fin]*np.abs((syn-obs)[fin])**2)/2)
        ok &= abs(m0-mexp) <= 1e-12*abs(mexp)
        if not ok:
            bad.append(('misfit/weights', tag))
            ctx.violation('misfit-definition',
                          f'world {tag}: misfit {m0!r} vs 1/2 sum w|r|^2 over '
                          f'finite data {mexp!r}', {'tag': repr(tag)})
        # --- adjoint source == P^T conj(w r): pairing with a random field
        for sk in w.survey.sources:
            for fk in w.survey.frequencies:
                rf = sim._get_rfield(sk, fk)
                x = emg3d.Field(w.grid, frequency=w.survey.frequencies[fk])
                x.field = rng.standard_normal(x.field.size) + \
                    1j*rng.standard_normal(x.field.size)
                # PEC field: zero tangential components on the boundary
                x.fx[:, [0, -1], :] = 0
                x.fx[:, :, [0, -1]] = 0
                x.fy[[0, -1], :, :] = 0
                x.fy[:, :, [0, -1]] = 0
                x.fz[[0, -1], :, :] = 0
                x.fz[:, [0, -1], :] = 0
                lhs = np.sum(rf.field*x.field)
                resp = sim._get_responses(sk, fk, x)
                r = sim.data.residual.loc[sk, :, fk].data
                wgt = sim.data.weights.loc[sk, :, fk].data
                f1 = np.isfinite(r)
                # strength conj(r w / (-s mu0)) times the source factor
                # -s mu0: a factor -s mu0 / conj(-s mu0) (= -1 for s = i w)
                fac = (-rf.smu0)/np.conj(-rf.smu0)
                rhs = fac*np.sum(np.conj(r[f1]*wgt[f1])*resp[f1])
                if not abs(lhs-rhs) <= 1e-9*max(abs(rhs), 1e-300):
                    bad.append(('rfield', tag, sk, fk, lhs, rhs))
                    ctx.violation(
                        'adjoint-source-not-transpose',
                        f'world {tag}: <rfield, x> = {lhs!r} but '
                        f'sum conj(w r) (P x) = {rhs!r} ({sk}, {fk})',
                        {'tag': repr(tag), 'source': sk, 'frequency': fk})
        # --- gradient == pipeline of the model on the stored fields
        raw = np.zeros((3,)+w.grid.shape_cells)
        vol = w.grid.cell_volumes.reshape(w.grid.shape_cells, order='F')
        for sk in w.survey.sources:
            for fk in w.survey.frequencies:
                e = sim._dict_efield[sk][fk]
                b = sim._dict_bfield[sk][fk]
                gf = emg3d.Field(w.grid, data=np.real(
                    b.field*e.smu0*e.field))
                ox, oy, oz = to_vol(vol, gf.fx, gf.fy, gf.fz)
                raw += np.array([ox, oy, oz])
        # collect by case (Lean `Grad.collect` evaluated through the driver
        # for a few cells, numpy for all)
        col = {'isotropic': [raw[0]+raw[1]+raw[2]],
               'HTI': [raw[0]+raw[2], raw[1]],
               'VTI': [raw[0]+raw[1], raw[2]],
               'triaxial': [raw[0], raw[1], raw[2]]}[case]
        exp = np.array(col)*chain_factor(w)
        gg = g.reshape(exp.shape)
        sc = np.max(np.abs(exp))
        if gg.shape != exp.shape or not np.max(np.abs(gg-exp)) <= 1e-10*sc:
            bad.append(('pipeline', tag, float(np.max(np.abs(gg-exp))/sc)))
            ctx.violation(
                'gradient-pipeline-differs',
                f'world {tag}: gradient differs from Re(b s mu0 e) -> '
                f'edges-to-cells -> collect -> chain applied to its own '
                f'fields by {np.max(np.abs(gg-exp))/sc:.3g} (relative)',
                {'tag': repr(tag)})
        if not np.all(np.isfinite(g)):
            bad.append(('finite', tag))
        want = (len(CASES[case]),)+w.grid.shape_cells if case != 'isotropic' \
            else w.grid.shape_cells
        if g.shape != want:
            bad.append(('shape', tag, g.shape))
            ctx.violation('gradient-shape', f'world {tag}: shape {g.shape}, '
                          f'expected {want}', {'tag': repr(tag)})
        ctx.count(key=('glue', tag))
    # Lean collect on a few triples
    lines = [f"collect {c} 2 3 5" for c in CASES]
    out = common.run_driver(lines, timeout=60)
    if out != ['10', '7 3', '5 5', '2 3 5']:
        bad.append(('collect table', out))
    ctx.cov['glue_unconverged_worlds'] = skipped
    ctx.oblige('correspondence: weights / residual / misfit, adjoint source '
               '== P^T conj(w r), gradient == model pipeline on the stored '
               'fields (toVol, collect, chain), shape and finiteness',
               'correspondence', not bad and len(ctx.violations) == nv0,
               str(bad[:2])[:500])
    return bad


def ctx_seed(ctx):
    return ctx.seed if isinstance(ctx.seed, int) else 0


def suite_fd(ctx):
    import emg3d
    rng = ctx.nprng('fd')
    bad = []
    nv0 = len(ctx.violations)
    nw = 8 if ctx.thorough else 3
    orders = []
    skipped = 0
    for t in range(nw):
        case = list(CASES)[(t + 1 + ctx_seed(ctx)) % 4]
        mapping = MAPS[(t*5 + 2 + ctx_seed(ctx)) % 6]
        w = World(emg3d, rng, case, mapping, shape=(8, 8, 8),
                  relative=bool(t % 2), noise=['scalar', 'array', 'unit'][t % 3],
                  edge_rec=(t % 3 == 1))
        sim = w.sim()
        with warnings.catch_warnings():
            warnings.simplefilter('ignore')
            m0 = float(sim.misfit)
            g = np.array(sim.gradient, copy=True)
        if not converged(sim):
            skipped += 1
            continue
        x0 = w.x0()
        g = g.reshape(x0.shape)
        tag = (case, mapping)
        for d in range(2):
            v = rng.standard_normal(x0.shape)
            if d == 1:          # a localised direction
                v = np.zeros(x0.shape)
                idx = tuple(int(rng.integers(0, n)) for n in x0.shape)
                v[idx] = 1.0
                v[:, 3:5, 3:5, 3:5] += rng.standard_normal((x0.shape[0], 2, 2, 2))
            gv = float(np.sum(g*v))
            scale = 0.02/np.max(np.abs(v))      # 2 % change in the parameter
            if mapping in ('Conductivity', 'Resistivity'):
                scale *= float(np.min(np.abs(x0)))
            errs, fds = [], []
            for h in [scale, scale/2]:
                with warnings.catch_warnings():
                    warnings.simplefilter('ignore')
                    sp = w.sim(w.model_at(x0+h*v))
                    sm = w.sim(w.model_at(x0-h*v))
                    mp_, mm = float(sp.misfit), float(sm.misfit)
                fds.append((mp_-mm)/(2*h))
                errs.append(abs(fds[-1] - gv))
            # Richardson extrapolation removes the h^2 term of the identity
            rel = abs((4*fds[1]-fds[0])/3 - gv)/max(abs(gv), 1e-300)
            order = np.log2(errs[0]/errs[1]) if errs[1] > 0 else np.inf
            orders.append(round(float(order), 2))
            # second order (unless already at the solver-tolerance floor)
            floor = 1e-7*abs(gv)
            if not rel <= 1e-3 or (errs[1] > floor and not order >= 1.6):
                bad.append((tag, d, gv, errs, order))
                ctx.violation(
                    'gradient-not-derivative',
                    f'world {tag}, direction {d}: <gradient, v> = {gv!r}; '
                    f'central differences differ by {errs} at steps h, h/2 '
                    f'(observed order {order:.2f}, extrapolated relative error {rel:.3g})',
                    {'tag': repr(tag), 'direction': d, 'misfit': m0})
            ctx.count(key=('fd', tag, d))
    ctx.cov['fd_orders'] = orders
    ctx.cov['fd_unconverged_worlds'] = skipped
    ctx.oblige('monitor: central differences of the misfit converge (order '
               '~2) to <gradient, v> for random and localised directions, all '
               'solves converged to 1e-11', 'monitor',
               not bad and len(ctx.violations) == nv0, str(bad[:2])[:500])
    return bad


def run(ctx):
    ctx.lean('Emg3dVerif.Props.C07', THEOREMS)
    ctx.assumptions += [
        'the solves are exact up to the requested tolerance (1e-11; worlds '
        'with a non-converged solve are skipped and counted); the theorem is '
        'the algebraic identity for exact solves',
        'system matrix symmetric and receivers / point sources transposes of '
        'each other (C02, C09: proved there, hypotheses Ainv^T = Ainv and P '
        'here)',
        'cubic receiver interpolation is outside the property',
    ]
    b = []
    for s in (suite_exact, suite_glue, suite_fd):
        b += s(ctx) or []
    if b and not ctx.violations:
        ctx.violation('model-correspondence-broken',
                      f'gradient pipeline no longer matches the model '
                      f'({str(b[:1])[:300]})', {'first': str(b[:1])[:800]},
                      found_input=False)


def replay(ctx, rp):
    for s in (suite_glue, suite_fd):
        s(ctx)
    for v in ctx.violations:
        print('replay:', v['sig'], v['what'][:200])
    return 1 if ctx.violations else 0


del Q, Fr
