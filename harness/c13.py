"""C13 — misfit and data weights follow the noise model and stay untouched.

Correspondence (T-trace): real `emg3d.Survey` objects are driven through
generated operation sequences (set noise_floor / relative_error /
standard_deviation in all five parameter forms, add_noise with offset and
amplitude cuts and `add_to`, select with arbitrary (also permuted) name lists
and remove_empty, copy, to_dict/from_dict); after every operation the public
observables are compared with the Lean model `NoiseM` (exactly; standard
deviations as squares within 8 ulp).  `random_noise` is replaced by a recorded
stub, so noise values are data.  `Simulation.misfit` is compared with
`NoiseM.misfit` on layered (1-D, fast) simulations, including histories that
change the NaN pattern of the observed data.
"""
import warnings
from fractions import Fraction as Fr

import numpy as np

from harness import common

THEOREMS = [
    'NoiseM.std_formula', 'NoiseM.std_explicit_wins', 'NoiseM.std_none',
    'NoiseM.addNoise_frame', 'NoiseM.select_frame_scalar',
    'NoiseM.restrictTo_subcube', 'NoiseM.select_is_subcube',
    'NoiseM.setters_reject_nonpositive', 'NoiseM.setNF_frame',
    'NoiseM.misfit_perm_invariant', 'NoiseM.misfit_of_perm',
    'NoiseM.misfit_formula',
    'NoiseM.addNoise_only_addTo',
]


def fr(x):
    f = Fr(float(x))
    return str(f.numerator) if f.denominator == 1 else \
        f'{f.numerator}/{f.denominator}'


def cval(z):
    z = complex(z)
    if np.isnan(z.real) or np.isnan(z.imag):
        return 'nan'
    return f'{fr(z.real)},{fr(z.imag)}'


def render_param(p):
    if p is None:
        return 'none'
    if isinstance(p, (float, int)) or np.ndim(p) == 0:
        return f's:{fr(p)}'
    return 'a:' + ' '.join(fr(v) for v in np.asarray(p).ravel())


def render(survey):
    d = survey.data
    names = (f"{survey.shape[0]} {survey.shape[1]} {survey.shape[2]} # "
             f"{','.join(survey.sources.keys())} # "
             f"{','.join(survey.receivers.keys())} # "
             f"{','.join(survey.frequencies.keys())}")
    obs = ' '.join(cval(v) for v in d.observed.data.ravel())
    std = 'none'
    if 'standard_deviation' in d.keys():
        std = ' '.join(fr(v) for v in d['standard_deviation'].data.ravel())
    extras = []
    for k in d.keys():
        if k in ('observed', '_noise_floor', '_relative_error',
                 'standard_deviation'):
            continue
        extras.append(k + '=' + ','.join(
            cval(v).replace(',', ':') for v in d[k].data.ravel()))
    return (f"{names} # obs {obs} # nf {render_param(survey.noise_floor)} "
            f"# re {render_param(survey.relative_error)} # std {std}",
            ' '.join(extras))


def split_model(s):
    """Model rendering -> (part comparable exactly, ssq list, extras)."""
    head, rest = s.split(' # ssq ')
    ssq, extra = rest.split(' # extra ')
    return head, ssq.split(' ') if ssq else [], extra.strip()


def snap_std(survey):
    std = survey.standard_deviation
    return None if std is None else np.array(std.data, dtype=float).ravel()


def check_std(vals, ssq):
    """Real standard deviation vs model's squared values."""
    if vals is None:
        return all(v == 'none' for v in ssq), 'std is None'
    if len(vals) != len(ssq):
        return False, 'size'
    for v, q in zip(vals, ssq):
        if q == 'none':
            if not np.isnan(v):
                return False, f'std {v} where model has none'
        else:
            ex = float(Fr(q))**0.5
            if not abs(v - ex) <= 8*np.finfo(float).eps*ex:
                return False, f'std {v} vs sqrt({q}) = {ex}'
    return True, ''


def dy(rng, lo, hi, den=16):
    return int(rng.integers(lo, hi))/den


def make_survey(rng):
    import emg3d
    ns, nr, nf = (int(rng.integers(1, 4)) for _ in '123')
    srcs = {}
    for i in range(ns):
        srcs[f'Tx{["A","b","C-x"][i]}{i}'] = emg3d.TxElectricPoint(
            (dy(rng, -64, 64, 1), dy(rng, -64, 64, 1), -dy(rng, 1, 20, 1),
             0, 0))
    recs = {}
    for j in range(nr):
        rel = bool(rng.integers(0, 3) == 0)
        recs[f'Rx{["q","P","m-2"][j]}{j}'] = emg3d.RxElectricPoint(
            (dy(rng, -64, 64, 1), dy(rng, -64, 64, 1), -dy(rng, 1, 20, 1),
             0, 0), relative=rel)
    freqs = {f'f-{k+1}': float(2**k) for k in range(nf)}
    data = np.zeros((ns, nr, nf), dtype=complex)
    for idx in np.ndindex(ns, nr, nf):
        data[idx] = dy(rng, -100, 100) + 1j*dy(rng, -100, 100)
        if rng.integers(0, 3) == 0:
            # amplitudes of the size of the noise floors (the amplitude cut of
            # add_noise at half the noise floor must discriminate)
            data[idx] = dy(rng, -7, 8, 32) + 1j*dy(rng, -7, 8, 32)
        if rng.integers(0, 5) == 0:
            data[idx] = np.nan + 1j*np.nan
    survey = emg3d.Survey(sources=srcs, receivers=recs, frequencies=freqs,
                          data=data)
    return survey


def offsq(survey):
    out = []
    for s in survey.sources.values():
        for r in survey.receivers.values():
            d = np.asarray(r.center_abs(s), float) - np.asarray(s.center, float)
            out.append(sum(Fr(float(x))**2 for x in d))
    return out


def gen_setval(rng, shape, name):
    form = int(rng.integers(0, 7))
    ns, nr, nf = shape
    if form == 0:
        return None, 'none'
    if form == 1:
        v = dy(rng, 1, 40, 64)
        return v, f'1 1 1 {fr(v)}'
    dims = [(ns, 1, 1), (1, nr, 1), (1, 1, nf), (ns, nr, nf), (1, 1, 1)][
        int(rng.integers(0, 5))]
    arr = np.array([dy(rng, 1, 40, 64) for _ in range(int(np.prod(dims)))]
                   ).reshape(dims)
    if form == 6:       # invalid: a non-positive entry
        arr.ravel()[int(rng.integers(0, arr.size))] = -arr.ravel()[0] \
            if rng.integers(0, 2) else 0.0
    txt = f'{dims[0]} {dims[1]} {dims[2]} ' + ' '.join(
        fr(v) for v in arr.ravel())
    if rng.integers(0, 3) == 0:
        # the same values as a lower-dimensional array that broadcasts to the
        # survey shape by NumPy's rules ((nf,), (nr, nf), (nr, 1), ...)
        while arr.ndim > 1 and arr.shape[0] == 1:
            arr = arr[0]
    return arr, txt


def run_sequence(ctx, rng, nops):
    """Returns (op line, list of real renderings, list of surveys' std
    checks to perform later) — or records a violation."""
    import emg3d
    from emg3d import surveys as SV
    survey = make_survey(rng)
    ns, nr, nf = survey.shape
    init = (f"survey {ns} {nr} {nf} | {','.join(survey.sources.keys())} | "
            f"{','.join(survey.receivers.keys())} | "
            f"{','.join(survey.frequencies.keys())} | " +
            ' '.join(cval(v) for v in survey.data.observed.data.ravel()))
    ops, real, objs, kinds = [], [render(survey)], [snap_std(survey)], ['init']
    originals = []
    ties = 0
    for _ in range(nops):
        kind = str(rng.choice(['setnf', 'setre', 'setstd', 'addnoise',
                               'addnoise', 'select', 'copy', 'dict']))
        shape = survey.shape
        try:
            if kind in ('setnf', 'setre'):
                val, txt = gen_setval(rng, shape, kind)
                ops.append(f'{kind} {txt}')
                try:
                    if kind == 'setnf':
                        survey.noise_floor = val
                    else:
                        survey.relative_error = val
                    real.append(render(survey))
                    if isinstance(val, np.ndarray):
                        # the caller re-uses its array afterwards: the survey
                        # keeps what was assigned
                        before = render(survey)
                        val *= 7.0
                        if render(survey) != before:
                            ctx.violation(
                                'survey-aliases-callers-array',
                                f'survey.{"noise_floor" if kind == "setnf" else "relative_error"}'
                                f' = array; array *= 7  changes the survey '
                                f'without an assignment (array of shape '
                                f'{val.shape})', {'op': kind,
                                                  'shape': list(val.shape)})
                            return None
                except ValueError:
                    real.append(('error', ''))
            elif kind == 'setstd':
                if rng.integers(0, 3) == 0:
                    ops.append('setstd none')
                    survey.standard_deviation = None
                    real.append(render(survey))
                else:
                    arr = np.array([dy(rng, 1, 40, 64) for _ in
                                    range(int(np.prod(shape)))]).reshape(shape)
                    if rng.integers(0, 6) == 0:
                        arr.ravel()[0] = 0.0
                    ops.append('setstd ' + ' '.join(fr(v) for v in arr.ravel()))
                    try:
                        survey.standard_deviation = arr
                        real.append(render(survey))
                    except ValueError:
                        real.append(('error', ''))
            elif kind == 'addnoise':
                mino = float(rng.choice([0.0, 0.0, 20.37, 55.21]))
                maxo = float(rng.choice([np.inf, np.inf, 70.13, 41.9]))
                amp = rng.choice(['half', 'none', 'val'])
                ampv = dy(rng, 1, 90, 16) + 1/1024
                add_to = str(rng.choice(['observed', 'observed', 'noisy',
                                         'other']))
                noise = np.array([dy(rng, -8, 8) + 1j*dy(rng, -8, 8)
                                  for _ in range(int(np.prod(shape)))]
                                 ).reshape(shape)
                # near-tie detection for the amplitude cut
                nfl = survey.noise_floor
                thr = None
                if amp == 'val':
                    thr = np.full(shape, ampv)
                elif amp == 'half' and nfl is not None:
                    thr = np.broadcast_to(np.asarray(nfl, float)/2, shape)
                if thr is not None:
                    ab = np.abs(survey.data.observed.data)
                    with np.errstate(invalid='ignore'):
                        if np.any(np.abs(ab - thr) <= 1e-9*thr):
                            ties += 1
                            continue
                saved = SV.random_noise

                def stub(std, *a, **k):
                    out = noise.astype(complex).copy()
                    out[np.isnan(std)] = np.nan + 1j*np.nan
                    return out
                SV.random_noise = stub
                try:
                    kw = {}
                    if maxo < np.inf:
                        kw['max_offset'] = maxo
                    survey.add_noise(
                        min_offset=mino, add_to=add_to,
                        min_amplitude={'half': 'half_nf', 'none': None,
                                       'val': ampv}[str(amp)], **kw)
                finally:
                    SV.random_noise = saved
                use = int(mino > 0.0 or maxo < np.inf)
                ops.append(
                    f"addnoise {fr(mino**2)} "
                    f"{'inf' if maxo == np.inf else fr(Fr(maxo)**2)} {use} "
                    f"{'val:'+fr(ampv) if amp == 'val' else amp} {add_to} / "
                    + ' '.join(str(q.numerator) if q.denominator == 1 else
                               f'{q.numerator}/{q.denominator}'
                               for q in offsq(survey)) + ' / ' +
                    ' '.join(cval(v) for v in noise.ravel()))
                real.append(render(survey))
            elif kind == 'select':
                def pick(names):
                    names = list(names)
                    m = int(rng.integers(0, 4))
                    if m == 0:
                        return None, '*'
                    k = int(rng.integers(1, len(names)+1))
                    sel = [names[i] for i in rng.permutation(len(names))[:k]]
                    if m == 1:
                        sel = sorted(sel, key=names.index)
                    return sel, ','.join(sel)
                s1, t1 = pick(survey.sources.keys())
                s2, t2 = pick(survey.receivers.keys())
                s3, t3 = pick(survey.frequencies.keys())
                rem = bool(rng.integers(0, 2))
                ops.append(f'select {t1} {t2} {t3} {int(rem)}')
                originals.append((survey, render(survey)))
                survey = survey.select(sources=s1, receivers=s2,
                                       frequencies=s3, remove_empty=rem)
                real.append(render(survey))
            else:
                ops.append('copy')
                originals.append((survey, render(survey)))
                if kind == 'copy':
                    survey = survey.copy()
                else:
                    survey = emg3d.Survey.from_dict(survey.to_dict(copy=True))
                real.append(render(survey))
        except Exception as e:
            ctx.violation('survey-op-raises',
                          f'{kind}: {type(e).__name__}: {e}',
                          {'init': init, 'ops': ops})
            return None
        objs.append(snap_std(survey))
        kinds.append(kind)
    # originals must not have been changed by operations on copies/selections
    for io, (o, r0) in enumerate(originals):
        r1 = render(o)
        if r1 != r0:
            a, b = ' '.join(r0).split(' # '), ' '.join(r1).split(' # ')
            what = [f'{x[:120]} -> {y[:120]}' for x, y in zip(a, b) if x != y]
            ctx.violation('original-changed',
                          f'a survey (original #{io}) changed after '
                          f'operations on its copy / selection: {what[:2]}',
                          {'init': init, 'ops': ops, 'original': io,
                           'changed': what})
            return None
    return init + ' || ' + ' ;; '.join(ops), real, objs, kinds, ties


def corpus_checks(ctx):
    """Minimised past failures, run first (regressions of fixed defects)."""
    import emg3d
    data = (np.arange(8).reshape(2, 2, 2) + 1)*(1 + 0.5j)
    s = emg3d.Survey(
        sources=[emg3d.TxElectricPoint((0, 0, 0, 0, 0)),
                 emg3d.TxElectricPoint((5, 0, 0, 0, 0))],
        receivers=[emg3d.RxElectricPoint((10, 0, 0, 0, 0)),
                   emg3d.RxElectricPoint((20, 0, 0, 0, 0))],
        frequencies=[1.0, 2.0], data=data.copy(),
        noise_floor=np.arange(1, 9).reshape(2, 2, 2)/8.0)
    nf0 = s.noise_floor.copy()
    for _ in range(3):
        s.add_noise(min_amplitude='half_nf', add_to='tmp', ntype='white_noise')
    if not np.array_equal(s.noise_floor, nf0):
        ctx.violation('add-noise-changes-noise-floor',
                      'repeated add_noise(min_amplitude="half_nf") changes an '
                      'array-valued noise_floor',
                      {'corpus': 'array noise floor, 3 x add_noise(half_nf)'})
    s1 = emg3d.Survey(sources=emg3d.TxElectricPoint((0, 0, 0, 0, 0)),
                      receivers=emg3d.RxElectricPoint((10, 0, 0, 0, 0)),
                      frequencies=1.0, data=np.ones((1, 1, 1))*(1+1j))
    try:
        s1.noise_floor = np.array([[[0.5]]])
        s1.relative_error = np.array([[[0.05]]])
        ok = s1.noise_floor == 0.5 and s1.relative_error == 0.05
    except Exception as e:
        ok = False
    if not ok:
        ctx.violation('size-one-array-parameter',
                      'noise_floor / relative_error of shape (1,1,1) on a '
                      '1x1x1 survey is not accepted', {'corpus': '1x1x1'})
    # the documented amplitude cut: data below HALF the noise floor are set to
    # NaN by add_noise(min_amplitude='half_nf') (the default), others kept
    # (purely imaginary data, so that the amplitudes are exact: 0.5 x the noise
    # floor is a tie and is kept - the rule is "smaller than")
    amp = np.array([0.2, 0.34, 0.49, 0.5, 0.51, 0.55, 0.9, 3.0]).reshape(2, 2, 2)
    for nfl in (2.0, np.array([1.0, 4.0]).reshape(1, 1, 2),
                np.arange(1, 9).reshape(2, 2, 2)/2.0):
        nfa = np.broadcast_to(np.asarray(nfl, float), (2, 2, 2))
        s2 = emg3d.Survey(
            sources=[emg3d.TxElectricPoint((0, 0, 0, 0, 0)),
                     emg3d.TxElectricPoint((5, 0, 0, 0, 0))],
            receivers=[emg3d.RxElectricPoint((10, 0, 0, 0, 0)),
                       emg3d.RxElectricPoint((20, 0, 0, 0, 0))],
            frequencies=[1.0, 2.0], data=(amp*nfa)*1j,
            noise_floor=nfl)
        for kw in (dict(), dict(min_amplitude='half_nf')):
            s2.add_noise(add_to='cut', **kw)
            got = np.isnan(s2.data['cut'].data)
            if not np.array_equal(got, amp < 0.5):
                ctx.violation(
                    'amplitude-cut-not-at-half-noise-floor',
                    f'add_noise({kw}) with noise_floor of shape '
                    f'{np.shape(nfl)}: data at {amp.ravel().tolist()} x '
                    f'noise floor are NaN at {got.ravel().astype(int).tolist()}'
                    f', documented: below half the noise floor',
                    {'corpus': 'half_nf cut', 'noise_floor_shape':
                     list(np.shape(nfl))})
                break
    # offsets of add_noise are distances between the centres in three
    # dimensions (source and receivers at different depths; a relative one)
    # (also for a survey of laboratory size, offsets of millimetres)
    for sc4 in (1.0, 1e-5):
        s4 = emg3d.Survey(
            sources=[emg3d.TxElectricPoint((0, 0, -500*sc4, 0, 0)),
                     emg3d.TxElectricPoint((300*sc4, 0, -100*sc4, 0, 0))],
            receivers=[
                emg3d.RxElectricPoint((1000*sc4, 0, -1000*sc4, 0, 0)),
                emg3d.RxElectricPoint((0, 600*sc4, -800*sc4, 0, 0),
                                      relative=True),
                emg3d.RxElectricPoint((1200*sc4, 0, -500*sc4, 0, 0))],
            frequencies=[1.0], data=np.ones((2, 3, 1))*(1+1j))
        stop = False
        for n4, kw in enumerate((
                dict(min_offset=1100.0*sc4), dict(max_offset=1050.0*sc4),
                dict(min_offset=900.0*sc4, max_offset=1190.0*sc4))):
            s4.add_noise(add_to=f'off{n4}', min_amplitude=None, **kw)
            got = np.isnan(s4.data[f'off{n4}'].data[:, :, 0])
            exp = np.zeros((2, 3), bool)
            for i, src in enumerate(s4.sources.values()):
                for j, rec in enumerate(s4.receivers.values()):
                    off = float(np.linalg.norm(
                        np.asarray(rec.center_abs(src)) -
                        np.asarray(src.center)))
                    exp[i, j] = off < kw.get('min_offset', 0.0) or \
                        off > kw.get('max_offset', np.inf)
            if not np.array_equal(got, exp):
                ctx.violation(
                    'offset-cut-not-three-dimensional',
                    f'add_noise({kw}): data are NaN at '
                    f'{got.astype(int).tolist()}, the documented rule '
                    f'(distance between source and receiver centres) gives '
                    f'{exp.astype(int).tolist()}',
                    {'corpus': '3-D offsets', 'kwargs': repr(kw),
                     'scale': sc4})
                stop = True
                break
        if stop:
            break
    # selection without restriction must not alias the original
    s3 = emg3d.Survey(
        sources=[emg3d.TxElectricPoint((0, 0, 0, 0, 0)),
                 emg3d.TxElectricPoint((5, 0, 0, 0, 0))],
        receivers=[emg3d.RxElectricPoint((10, 0, 0, 0, 0)),
                   emg3d.RxElectricPoint((20, 0, 0, 0, 0))],
        frequencies=[1.0, 2.0], data=data.copy(), noise_floor=0.1,
        relative_error=0.05)
    obs0 = s3.data.observed.data.copy()
    sd0 = s3.standard_deviation.data.copy()
    for kw in [dict(remove_empty=False), dict(), dict(
            sources=list(s3.sources), remove_empty=False)]:
        sel = s3.select(**kw)
        sel.add_noise(add_to='observed')
        sel.noise_floor = 3.0
        if not (np.array_equal(obs0, s3.data.observed.data) and
                np.array_equal(sd0, s3.standard_deviation.data)):
            ctx.violation(
                'original-changed',
                f'add_noise on survey.select({kw}) changed the observed data '
                f'/ standard deviation of the original survey',
                {'corpus': 'select without restriction, add_noise',
                 'select_kwargs': repr(kw)})
            break
    ctx.count(key='corpus-half-nf')
    ctx.count(key='corpus-1x1x1')
    ctx.count(key='corpus-select-alias')


def suite_trace(ctx):
    with warnings.catch_warnings():
        warnings.simplefilter('ignore')
        corpus_checks(ctx)
    rng = ctx.nprng('trace')
    nseq = 400 if ctx.thorough else 60
    runs = []
    ties = 0
    with warnings.catch_warnings():
        warnings.simplefilter('ignore')
        for _ in range(nseq):
            r = run_sequence(ctx, rng, int(rng.integers(3, 11)))
            if r:
                runs.append(r)
                ties += r[4]
    out = common.run_driver([r[0] for r in runs], jobs=8)
    bad = []
    hist = {}
    for (line, real, objs, kinds, _), o in zip(runs, out):
        steps = o.split(' ;; ')
        if len(steps) != len(real):
            bad.append((line, 'length', len(steps), len(real)))
            continue
        first = None
        for k, (m, (rh, rex)) in enumerate(zip(steps, real)):
            hist[kinds[k]] = hist.get(kinds[k], 0) + 1
            if rh == 'error' or m == 'error':
                if rh != m:
                    first = (k, 'setter acceptance', m[:80], rh[:80])
                    break
                continue
            mh, ssq, mex = split_model(m)
            if mh != rh:
                first = (k, 'state', first_diff(mh, rh))
                break
            if sorted(mex.split(' ')) != sorted(rex.split(' ')):
                first = (k, 'extra data sets', mex[:100], rex[:100])
                break
            ok, why = check_std(objs[k], ssq)
            if not ok:
                first = (k, 'standard deviation', why)
                break
        ctx.count(key=line)
        if first:
            k = first[0]
            ops = line.split(' || ')[1].split(' ;; ')
            bad.append((first, ops[:k]))
            ctx.violation(
                'survey-history-' + first[1].replace(' ', '-'),
                f'after operation #{k} ({ops[k-1] if k else "init"}'[:160] +
                f'): {first[1]} differs from the documented noise model: '
                f'{first[2:]}'[:300],
                {'op_line': line, 'step': k})
    ctx.cov['op_histogram'] = hist
    ctx.cov['sequences'] = len(runs)
    ctx.cov['near_ties_skipped'] = ties
    ctx.oblige('correspondence: Survey noise observables after every '
               'operation == NoiseM model', 'correspondence', not bad,
               f'{len(bad)} of {len(runs)} sequences differ; first {bad[:1]}'[:600])
    if runs:
        ctx.samples.append({'op_line': runs[0][0][:500]})


def first_diff(a, b):
    pa, pb = a.split(' # '), b.split(' # ')
    for x, y in zip(pa, pb):
        if x != y:
            return f'model "{x[:120]}" vs real "{y[:120]}"'
    return 'length'


def suite_misfit(ctx):
    """Simulation.misfit (layered mode: fast) vs NoiseM.misfit, with a
    history that changes the NaN pattern of the observed data."""
    import emg3d
    rng = ctx.nprng('misfit')
    bad = []
    lines, exp = [], []
    n = 12 if ctx.thorough else 6
    for t in range(n):
        hx = np.ones(4)*500.0
        grid = emg3d.TensorMesh([hx, hx, np.array([400., 300., 300., 200.])],
                                origin=(-1000, -1000, -1200))
        res = np.ones(grid.shape_cells)*np.array([2., 1., 10., 0.3])[None, None, :]
        model = emg3d.Model(grid, res, mapping='Resistivity')
        ns, nr, nf = int(rng.integers(1, 3)), int(rng.integers(2, 4)), \
            int(rng.integers(1, 3))
        # every third case: weak sources and correspondingly small noise
        # (standard deviations far below machine epsilon)
        sc = 1e-6 if t % 3 == 2 else 1.0
        srcs = {f'Tx-{i}': emg3d.TxElectricDipole(
            (-300.0 + 200*i, 0, -250, 0, 0), strength=sc) for i in range(ns)}
        recs = {f'Rx-{j}': emg3d.RxElectricPoint(
            (300.0 + 250*j, 0, -300, 0, 0)) for j in range(nr)}
        survey = emg3d.Survey(sources=srcs, receivers=recs,
                              frequencies=[0.5*(k+1) for k in range(nf)])
        form = t % 4
        if form == 0:
            survey.noise_floor = 1e-13*sc
            survey.relative_error = 0.05
        elif form == 1:
            survey.noise_floor = rng.uniform(1e-14, 1e-12, (ns, nr, nf))*sc
        elif form == 2:
            survey.relative_error = rng.uniform(0.01, 0.1, (1, nr, 1))
            survey.noise_floor = 2e-14*sc
        with warnings.catch_warnings():
            warnings.simplefilter('ignore')
            sim = emg3d.Simulation(survey=survey, model=model, layered=True,
                                   max_workers=1, verb=-1, tqdm_opts=False)
            sim.compute(observed=True)
            obs = survey.data.observed.data
            obs *= (1 + 0.1*rng.standard_normal(obs.shape))
            gaps = rng.integers(0, 3, obs.shape) == 0
            gaps.ravel()[0] = False
            filled = obs.copy()
            obs[gaps] = np.nan + 1j*np.nan
            if form == 3:
                survey.standard_deviation = rng.uniform(
                    1e-14, 1e-12, (ns, nr, nf))*sc
            sim.model = emg3d.Model(grid, res*1.1, mapping='Resistivity')
            sim.clean('computed')
            for phase in range(2):
                m = float(sim.misfit)
                syn = survey.data.synthetic.data
                lines.append(misfit_line(survey, syn))
                exp.append((m, t, phase))
                # change the NaN pattern: fill the gaps
                survey.data.observed.data[gaps] = filled[gaps]
                sim.clean('computed')
        ctx.count(key=('misfit', t, form))
    out = common.run_driver(lines)
    for o, (m, t, phase) in zip(out, exp):
        ex = float(Fr(o))
        if not abs(m - ex) <= 1e-11*abs(ex):
            bad.append((t, phase, m, ex))
            ctx.violation(
                'misfit-differs-from-formula',
                f'Simulation.misfit = {m!r}, documented 0.5 sum |r|^2/std^2 '
                f'over finite observations = {ex!r} (case {t}, '
                f'{"after the NaN pattern of the observations changed" if phase else "first evaluation"})',
                {'case': t, 'phase': phase})
    ctx.cov['misfit_cases'] = len(lines)
    ctx.oblige('correspondence: Simulation.misfit == NoiseM.misfit (1e-11)',
               'correspondence', not bad, str(bad[:2]))


def misfit_line(survey, syn):
    ns, nr, nf = survey.shape
    nfl, rel = survey.noise_floor, survey.relative_error
    std = 'none'
    if 'standard_deviation' in survey.data.keys():
        std = ' '.join(fr(v) for v in
                       survey.data['standard_deviation'].data.ravel())

    def par(p):
        if p is None:
            return 'none'
        if np.ndim(p) == 0:
            return f'1 1 1 {fr(p)}'
        p = np.asarray(p)
        return f'{p.shape[0]} {p.shape[1]} {p.shape[2]} ' + ' '.join(
            fr(v) for v in p.ravel())
    return (f"misfit {ns} {nr} {nf} | " +
            ' '.join(cval(v) for v in survey.data.observed.data.ravel()) +
            ' | ' + ' '.join(cval(v) for v in syn.ravel()) +
            f" | {par(nfl)} | {par(rel)} | {std}")


def run(ctx):
    ctx.lean('Emg3dVerif.Props.C13', THEOREMS)
    ctx.assumptions += [
        'random_noise is replaced by a recorded stub (noise values are data)',
        'sqrt/hypot rounding: standard deviations compared as squares within '
        '8 ulp; amplitude-cut near-ties (1e-9) are skipped and counted',
    ]
    suite_trace(ctx)
    suite_misfit(ctx)


def replay(ctx, rp):
    r = rp['replay']
    if 'op_line' not in r:
        print('replay: no input recorded')
        return 1
    print('replay: model output for the recorded history:')
    print(common.run_driver([r['op_line']])[0][:2000])
    return 1
