"""C12 — simulation results are a function of (model, survey), not of history.

Correspondence (T-trace): real `Simulation` objects are driven through random
sequences of public operations; after every operation the returned value and
the passive observables (synthetic data per source-frequency pair, stored
fields, cache flags, tolerance entry) are compared with the Lean cache model
`SimM`.  Every real value is identified with the model version it equals
*bit for bit*, reference values coming from FRESH simulations of that version
- so the comparison is the property itself: the theorems of `Props/C12.lean`
say that the model only ever reports values of the current version.
"""
import os
import shutil
import warnings

import numpy as np

from harness import common

THEOREMS = [
    'SimM.Coherent_fresh', 'SimM.doMisfit_coh', 'SimM.doGradient_coh',
    'SimM.step_coherent', 'SimM.run_coherent',
    'SimM.history_independent', 'SimM.synthetic_current_or_nan',
    'SimM.tol_switch_restored', 'SimM.copy_independent',
    'SimM.computed_means_all_pairs', 'SimM.jtvec_leaves_no_trace',
]

CACHE = os.path.join(common.CACHE, f'c12-{os.getpid()}')


class World:
    """Reference values from fresh simulations, per model version."""

    def __init__(self, rng, case, gridding='same'):
        import emg3d
        self.emg3d = emg3d
        self.case = case
        self.gridding = gridding
        hx = np.ones(8)*100.0
        self.grid = emg3d.TensorMesh(
            [hx, np.ones(6)*100.0, np.array([80., 90., 100., 100., 90., 80.])],
            origin=(-400, -300, -270))
        shp = self.grid.shape_cells
        self.base = {'property_x': rng.uniform(0.5, 2.0, shp)}
        if case == 'triaxial':
            self.base['property_y'] = rng.uniform(0.5, 2.0, shp)
            self.base['property_z'] = rng.uniform(0.5, 2.0, shp)
        # keys deliberately not in alphabetical order (dictionaries keep
        # insertion order; the data arrays are positional)
        srcs = {'Tx-2': emg3d.TxElectricDipole((-120., 10., 20., 10., 5.)),
                'Tx-1': emg3d.TxElectricDipole((90., -30., -15., 60., -10.))}
        recs = {'Rx-c': emg3d.RxElectricPoint((150., 60., 30., 0., 0.)),
                'Rx-a': emg3d.RxElectricPoint((-40., -80., -50., 45., 10.)),
                'Rx-b': emg3d.RxMagneticPoint((10., 90., 40., 20., 0.))}
        self.survey = emg3d.Survey(sources=srcs, receivers=recs,
                                   frequencies={'f-2': 1.0, 'f-1': 2.5},
                                   noise_floor=1e-17, relative_error=0.05)
        self.pairs = [(s, f) for s in self.survey.sources.keys()
                      for f in self.survey.frequencies.keys()]
        self.opts = dict(gridding='same', max_workers=1, verb=-1,
                         receiver_interpolation='linear', tqdm_opts=False,
                         solver_opts={'plain': True, 'tol': 1e-7,
                                      'tol_gradient': 1e-4, 'maxit': 60})
        if gridding == 'input':
            # a given computational grid with other nodes than the model
            # grid (independent of the model, unlike estimated gridding)
            self.opts['gridding'] = 'input'
            self.opts['gridding_opts'] = emg3d.TensorMesh(
                [np.ones(8)*100.0, np.ones(8)*75.0, np.ones(8)*67.5],
                origin=(-400, -300, -270))
        # observed data from a different ("true") model
        true = self.simulation(-1)
        true.compute(observed=True, add_noise=False)
        self.survey = true.survey.copy()
        del self.survey.data['synthetic']
        self.ref = {}
        nd = self.survey.shape
        self.w = {1: (np.arange(np.prod(nd)).reshape(nd) + 1)*(1 - 0.5j)*1e16,
                  2: np.ones(nd)*(0.3 + 1j)*1e16}
        self.v = rng.standard_normal(
            ((3,) if case == 'triaxial' else ()) + shp)

    def model(self, ver):
        f = 1.0 + 0.07*ver if ver >= 0 else 1.35
        return self.emg3d.Model(self.grid, mapping='Conductivity',
                                **{k: v*f for k, v in self.base.items()})

    def simulation(self, ver, **kw):
        with warnings.catch_warnings():
            warnings.simplefilter('ignore')
            return self.emg3d.Simulation(
                survey=self.survey.copy(), model=self.model(ver),
                **{**self.opts, **kw})

    def get(self, ver):
        """Reference values of model version `ver` from fresh simulations
        (one fresh simulation per quantity)."""
        if ver in self.ref:
            return self.ref[ver]
        with warnings.catch_warnings():
            warnings.simplefilter('ignore')
            s = self.simulation(ver)
            s.compute()
            r = {'syn': s.data.synthetic.data.copy()}
            r['ef'] = {p: s.get_efield(*p).field.copy() for p in self.pairs}
            r['hf'] = {p: s.get_hfield(*p).field.copy() for p in self.pairs}
            s = self.simulation(ver)
            r['mis'] = float(s.misfit)
            s = self.simulation(ver)
            r['grad'] = s.gradient.copy()
            s = self.simulation(ver)
            r['jvec'] = s.jvec(self.v).copy()
            for k, w in self.w.items():
                s = self.simulation(ver)
                r[('jt', k)] = s.jtvec(w).copy()
        self.ref[ver] = r
        return r

    def which(self, key, value, sub=None):
        """Tag a real value with the model version it equals bit for bit."""
        for ver in sorted(self.ref):
            ref = self.ref[ver][key]
            if sub is not None:
                ref = ref[sub]
            if np.array_equal(np.asarray(ref), np.asarray(value),
                              equal_nan=True):
                return str(ver)
        return 'X'


OPS = ['compute', 'misfit', 'gradient', 'jvec', 'jtvec:1', 'jtvec:2', 'ge:0',
       'ge:3', 'gh:1', 'clean:computed', 'clean:keepresults', 'clean:all',
       'copy:computed', 'copy:results', 'copy:all', 'copy:plain', 'update',
       'updatei']


def passive(world, sim):
    """Canonical passive observables of a real simulation."""
    syn, ef = [], []
    for (s, f) in world.pairs:
        d = sim.data.synthetic.loc[s, :, f].data
        if np.all(np.isnan(d)):
            syn.append('-')
        else:
            k = list(world.survey.sources.keys()).index(s)
            kf = list(world.survey.frequencies.keys()).index(f)
            tag = 'X'
            for ver in sorted(world.ref):
                if np.array_equal(world.ref[ver]['syn'][k, :, kf], d):
                    tag = str(ver)
            syn.append(tag)
        e = sim._dict_get('efield', s, f)
        ef.append('-' if e is None else world.which('ef', e.field, (s, f)))
    tol = sim.solver_opts.get('tol') == sim.tol_forward

    def b(x):
        return '1' if x else '0'
    return (f"ef={','.join(ef)} syn={','.join(syn)} comp={b(sim._computed)} "
            f"mc={b(sim._misfit is not None)} gc={b(sim._gradient is not None)}"
            f" bf={b(hasattr(sim, '_dict_bfield'))} "
            f"res={b('residual' in sim.data.keys())} tol={b(tol)}")


def snapshot(world, sim):
    """Bytes of everything a copy could share with its original."""
    out = [getattr(sim.model, key).tobytes() for key in world.base]
    out += [sim.data[name].data.tobytes() for name in sorted(sim.data.keys())]
    for (s_, f_) in world.pairs:
        e_ = sim._dict_get('efield', s_, f_)
        out.append(None if e_ is None else e_.field.tobytes())
    out.append(repr(sorted(sim.solver_opts.items())))
    return out


def copy_sim(world, sim, what, how, tag):
    emg3d = world.emg3d
    if how == 'copy':
        return sim.copy(what)
    if how == 'dict':
        return emg3d.Simulation.from_dict(sim.to_dict(what, copy=True))
    os.makedirs(CACHE, exist_ok=True)
    fn = os.path.join(CACHE, f'sim_{tag}.{how}')
    sim.to_file(fn, what=what, verb=0)
    out = emg3d.Simulation.from_file(fn, verb=0)
    os.remove(fn)
    return out


def run_sequence(ctx, world, rng, k):
    """Drive one real simulation; returns (op line, [real renderings])."""
    nops = int(rng.integers(3, 9))
    ops = [str(rng.choice(OPS)) for _ in range(nops)]
    file_dir = None
    if k % 4 == 3:
        file_dir = os.path.join(CACHE, f'fd_{os.getpid()}_{k}')
        ops = [o for o in ops if not o.startswith('copy')] or ['misfit']
    ver = 0
    world.get(0)
    sim = world.simulation(0, **({'file_dir': file_dir} if file_dir else {}))
    real, hows = [], []
    originals = []
    with warnings.catch_warnings():
        warnings.simplefilter('ignore')
        for i, op in enumerate(ops):
            name, _, arg = op.partition(':')
            try:
                ret = 'none'
                if name == 'compute':
                    sim.compute()
                elif name == 'misfit':
                    m = float(sim.misfit)
                    ret = f"mis({world.which('mis', m)})"
                elif name == 'gradient':
                    g = sim.gradient
                    ret = f"grad({world.which('grad', g)})"
                elif name == 'jvec':
                    j = sim.jvec(world.v)
                    ret = f"jvec({world.which('jvec', j)})"
                elif name == 'jtvec':
                    g = sim.jtvec(world.w[int(arg)])
                    ret = f"jt{arg}({world.which(('jt', int(arg)), g)})"
                elif name in ('ge', 'gh'):
                    p = world.pairs[int(arg)]
                    fld = (sim.get_efield(*p) if name == 'ge'
                           else sim.get_hfield(*p))
                    ret = f"field({world.which('ef' if name == 'ge' else 'hf', fld.field, p)})"
                elif name == 'clean':
                    sim.clean(arg)
                elif name == 'copy':
                    how = str(rng.choice(['copy', 'dict', 'h5', 'npz', 'json']))
                    hows.append(how)
                    originals.append((sim, passive(world, sim)))
                    # independence: whatever is done to the arrays of a copy
                    # (a throw-away one) leaves the original as it is
                    c2 = copy_sim(world, sim, arg, how, f'{k}_{i}x')
                    snap = snapshot(world, sim)
                    for key in world.base:
                        getattr(c2.model, key)[...] *= 1.25
                    for name in list(c2.data.keys()):
                        c2.data[name].data[...] = 7.0
                    for (s_, f_) in world.pairs:
                        e_ = c2._dict_get('efield', s_, f_)
                        if e_ is not None:
                            e_.field[...] = 0.0
                    if isinstance(c2.solver_opts, dict):
                        c2.solver_opts['maxit'] = 1
                    if snapshot(world, sim) != snap:
                        ctx.violation(
                            'original-changed-by-copy',
                            f'history {ops[:i+1]} (copy via {how}): editing '
                            f'the arrays / options of the copy changed the '
                            f'original simulation',
                            {'ops': ops[:i+1], 'how': how})
                        ops = ops[:i+1]
                        real.append('original changed')
                        break
                    sim = copy_sim(world, sim, arg, how, f'{k}_{i}')
                elif name == 'update':
                    ver += 1
                    world.get(ver)
                    sim.model = world.model(ver)
                    sim.clean('computed')
                elif name == 'updatei':
                    # the model's arrays edited in place, then a clean
                    ver += 1
                    world.get(ver)
                    new = world.model(ver)
                    for key in world.base:
                        getattr(sim.model, key)[...] = getattr(new, key)
                    sim.clean('computed')
                real.append(f"{ret} ; ver={ver} {passive(world, sim)}")
            except Exception as e:
                real.append(f"raised {type(e).__name__}: {str(e)[:80]}")
                ops = ops[:i+1]
                break
    if file_dir:
        shutil.rmtree(file_dir, ignore_errors=True)
    indep = all(passive(world, o) == p0 or True for o, p0 in originals)
    # originals: their *own* values must still be those of their version
    bad_orig = [p0 for o, p0 in originals if 'X' in passive(world, o)]
    return ops, real, bad_orig, file_dir is not None


class FixedOps:
    """Stand-in for the PRNG that replays a fixed operation list."""

    def __init__(self, ops):
        self.ops, self.i = ops, 0

    def integers(self, a, b):
        return len(self.ops) if a == 3 else 0

    def choice(self, x):
        if x is OPS:
            self.i += 1
            return self.ops[self.i-1]
        return 'dict'


def run_fixed(ctx, world, ops, fd):
    return run_sequence(ctx, world, FixedOps(list(ops)), 3 if fd else 0)[1]


def canon_model(s):
    """Model rendering -> same compact form as the real one."""
    ret, state = s.split(' ; ')

    def one(lst):
        vals = set(lst.split(','))
        return vals.pop() if len(vals) == 1 else 'mixed'
    if ret.startswith('mis['):
        ret = f"mis({one(ret[4:-1])})"
    elif ret.startswith('grad['):
        e, sy, w = ret[5:-1].split('|')
        v = one(e + ',' + sy)
        ret = f"grad({v})" if w == 'r' else f"jt{w[1:]}({v})"
    elif ret.startswith('jvec['):
        ret = f"jvec({one(ret[5:-1])})"
    elif ret.startswith('field['):
        ret = f"field({ret[6:-1]})"
    return f"{ret} ; {state}"


def run(ctx):
    ctx.lean('Emg3dVerif.Props.C12', THEOREMS)
    ctx.assumptions += [
        'what a solve computes is abstract (a value tagged with the model '
        'version); determinism of repeated identical computations is what '
        'makes bit-for-bit identification possible (checked: a value that '
        'matches no version is reported)',
        'estimated gridding options are excluded (gridding="same"): with '
        'estimated options a model replacement legitimately changes defaults',
    ]
    shutil.rmtree(CACHE, ignore_errors=True)
    os.makedirs(CACHE, exist_ok=True)
    rng = ctx.nprng('seq')
    worlds = [World(ctx.nprng('world-iso'), 'isotropic'),
              World(ctx.nprng('world-inp'), 'isotropic', gridding='input')]
    if ctx.thorough:
        worlds.append(World(ctx.nprng('world-tri'), 'triaxial'))
        worlds.append(World(ctx.nprng('world-tri-inp'), 'triaxial',
                            gridding='input'))
    nseq = 150 if ctx.thorough else 28
    runs = []
    corpus = [
        ['misfit', 'jtvec:1', 'gradient'],
        ['misfit', 'jtvec:1', 'jtvec:1', 'misfit'],
        ['ge:0', 'misfit'],
        ['gradient', 'copy:computed', 'compute', 'misfit'],
        ['compute', 'update', 'gradient'],
        ['compute', 'updatei', 'gradient'],
        ['compute', 'updatei', 'misfit'],
    ]
    for k in range(nseq + len(corpus)):
        world = worlds[k % len(worlds)]
        if k < len(corpus):
            class R:
                def __init__(s, ops): s.ops, s.i = ops, 0
                def integers(s, a, b): return len(s.ops) if a == 3 else 0
                def choice(s, x):
                    if x is OPS:
                        s.i += 1
                        return s.ops[s.i-1]
                    return 'dict'
            r = run_sequence(ctx, world, R(corpus[k]), k*4)
        else:
            r = run_sequence(ctx, world, rng, k)
        runs.append((world, *r))
    lines = [f"sim {len(w.pairs)} | " + ' '.join(
        'update' if o == 'updatei' else o for o in ops)
        for (w, ops, real, bo, fd) in runs]
    out = common.run_driver(lines)
    bad = []
    hist = {}
    for (w, ops, real, bad_orig, fd), o, line in zip(runs, out, lines):
        steps = [canon_model(x) for x in o.split(' ;; ')]
        ctx.count(key=line + str(fd))
        for op in ops:
            hist[op.split(':')[0]] = hist.get(op.split(':')[0], 0) + 1
        for i, (m, r) in enumerate(zip(steps, real)):
            if m != r:
                bad.append((ops[:i+1], m, r))
                what = (f'history {ops[:i+1]}'
                        f'{" (file based)" if fd else ""}: the simulation '
                        f'reports "{r}", a fresh simulation of the same model '
                        f'and survey gives "{m}"')
                if r.startswith('raised'):
                    sig = 'history-raises'
                elif m.split(' ; ')[0] != r.split(' ; ')[0] or 'X' in r:
                    sig = 'history-dependent-result'
                else:
                    sig = 'cache-state-differs'
                found = sig != 'cache-state-differs'
                if not found:
                    # the cache model no longer describes the code: look for
                    # a history on which the *property* fails (values differ
                    # from a fresh simulation)
                    for ext in (['misfit'], ['gradient'], ['jtvec:1'],
                                ['compute', 'misfit']):
                        hist_ops = ops[:i+1] + ext
                        r2 = run_fixed(ctx, w, hist_ops, fd)
                        ver = sum(1 for o in hist_ops if o in ('update', 'updatei'))
                        last = r2[-1].split(' ; ')[0] if r2 else ''
                        exp = {'misfit': f'mis({ver})',
                               'gradient': f'grad({ver})',
                               'jtvec:1': f'jt1({ver})'}[ext[-1]]
                        if last != exp:
                            ctx.violation(
                                'history-dependent-result',
                                f'history {hist_ops}: returns "{last}", a '
                                f'fresh simulation gives "{exp}"',
                                {'ops': hist_ops, 'file_based': fd,
                                 'case': w.case, 'gridding': w.gridding})
                            found = True
                            break
                if not found or sig != 'cache-state-differs':
                    ctx.violation(sig, what[:600], {'ops': ops[:i+1],
                                                    'file_based': fd,
                                                    'case': w.case,
                                                    'gridding': w.gridding},
                                  found_input=(sig != 'cache-state-differs'))
                break
        if bad_orig:
            ctx.violation('original-changed-by-copy',
                          f'history {ops}: the original of a copy no longer '
                          f'holds values of its model: {bad_orig[0]}',
                          {'ops': ops})
    ctx.cov['op_histogram'] = hist
    ctx.cov['sequences'] = len(runs)
    ctx.oblige('correspondence: observables of Simulation after every public '
               'operation == SimM model (values identified bit for bit with '
               'fresh simulations)', 'correspondence', not bad,
               f'{len(bad)} of {len(runs)} sequences differ; first {bad[:1]}'[:700])
    if runs:
        ctx.samples.append({'ops': runs[-1][1], 'real': runs[-1][2][:3]})
    shutil.rmtree(CACHE, ignore_errors=True)


def replay(ctx, rp):
    r = rp['replay']
    world = World(ctx.nprng('world-iso' if r.get('case') != 'triaxial'
                            else 'world-tri'), r.get('case', 'isotropic'),
                  gridding=r.get('gridding', 'same'))
    os.makedirs(CACHE, exist_ok=True)

    class R:
        def __init__(s, ops): s.ops, s.i = ops, 0
        def integers(s, a, b): return len(s.ops) if a == 3 else 0
        def choice(s, x):
            if x is OPS:
                s.i += 1
                return s.ops[s.i-1]
            return 'dict'
    ops, real, bo, fd = run_sequence(ctx, world, R(r['ops']),
                                     3 if r.get('file_based') else 0)
    out = common.run_driver([f"sim {len(world.pairs)} | " + ' '.join(
        'update' if o == 'updatei' else o for o in ops)])[0]
    steps = [canon_model(x) for x in out.split(' ;; ')]
    bad = [(m, x) for m, x in zip(steps, real) if m != x]
    print('replay:', bad[:1] or 'history agrees with a fresh simulation')
    return 1 if bad else 0
