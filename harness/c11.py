"""C11 — survey results do not depend on worker count, scheduling or file mode.

Suites
  pmap : the real `emg3d._multiprocessing.process_map` is run with tasks whose
         run times are chosen adversarially (reverse, random, one straggler),
         max_workers 1..16, with and without the tqdm back end; the observed
         completion order is fed to the Lean model `PMap.collectOrdered`, whose
         result must equal the returned list (slot i = result of task i).
  sims : real simulations with source-frequency tasks of different cost (grids
         of different size per task) computed sequentially, with 2/4 workers
         and file based: synthetic data, fields, misfit, gradient and J v must
         be BIT-IDENTICAL, every slot must hold the field of its own source and
         frequency; task list and file names vs the model.
"""
import os
import time
import shutil
import warnings

import numpy as np

from harness import common

THEOREMS = [
    'PMap.process_map_order', 'PMap.results_deterministic',
    'PMap.unordered_breaks_slots', 'PMap.slots_get_own_result',
    'PMap.srcfreq_nodup', 'PMap.file_names_injective_partial',
    'PMap.file_names_collision_counterexample',
]

CACHE = os.path.join(common.CACHE, f'c11-{os.getpid()}')


def task(x):
    """Picklable task: sleep `delay`, return (index, finishing time)."""
    idx, delay = x
    time.sleep(delay)
    return idx, time.time()


def suite_pmap(ctx):
    from emg3d import _multiprocessing as mp
    rng = ctx.nprng('pmap')
    runs = []
    saved_tqdm = mp.tqdm
    combos = []
    workers = [1, 2, 3, 4, 8, 16] if ctx.thorough else [1, 2, 4, 16]
    for w in workers:
        for use_tqdm in (True, False):
            for pattern in (['reverse', 'random', 'straggler']
                            if (ctx.thorough or w in (2, 4)) else ['reverse']):
                combos.append((w, use_tqdm, pattern))
    try:
        for (w, use_tqdm, pattern) in combos:
            n = int(rng.integers(5, 9))
            if pattern == 'reverse':
                delays = [0.04*(n-i) for i in range(n)]
            elif pattern == 'random':
                delays = [float(d) for d in rng.uniform(0.0, 0.15, n)]
            else:
                delays = [0.25] + [0.01]*(n-1)
            mp.tqdm = saved_tqdm if use_tqdm else None
            kw = {'disable': True} if use_tqdm else {}
            try:
                out = mp.process_map(task, list(enumerate(delays)),
                                     max_workers=w, **kw)
            except Exception as e:
                ctx.violation('process-map-raises', f'{type(e).__name__}: {e}',
                              {'workers': w, 'tqdm': use_tqdm})
                continue
            order = [i for i, _ in sorted(out, key=lambda t: t[1])]
            runs.append((w, use_tqdm, pattern, n, order,
                         [i for i, _ in out]))
    finally:
        mp.tqdm = saved_tqdm
    lines = [f"pmap {r[3]} | " + ' '.join(map(str, r[4])) for r in runs]
    out = common.run_driver(lines)
    bad = []
    nontriv = 0
    for r, o in zip(runs, out):
        exp = o.split(' | ')[0]
        got = ' '.join(map(str, r[5]))
        if r[4] != sorted(r[4]):
            nontriv += 1
            ctx.count(key=('pmap', r[0], r[1], r[2]))
        else:
            ctx.count()
        if got != exp:
            bad.append(r)
            ctx.violation(
                'results-in-wrong-slots',
                f'process_map(max_workers={r[0]}, tqdm={r[1]}): tasks finished '
                f'in order {r[4]}, returned list holds tasks {r[5]} (slot i '
                f'must hold the result of task i)',
                {'workers': r[0], 'tqdm': r[1], 'pattern': r[2],
                 'completion_order': r[4], 'returned': r[5]})
    ctx.cov['pmap_runs'] = len(runs)
    ctx.cov['pmap_runs_with_out_of_order_completion'] = nontriv
    ctx.oblige('correspondence: process_map under adversarial latencies == '
               'PMap.collectOrdered of the observed completion order',
               'correspondence', not bad, str(bad[:2]))
    if runs:
        ctx.samples.append({'pmap_run': {'workers': runs[-1][0],
                                         'completion_order': runs[-1][4]}})


def build(rng, names=None):
    """Survey with 2 sources x 3 frequencies; one grid per task, of different
    size (so tasks differ in cost and finish out of order)."""
    import emg3d
    hx = np.ones(8)*100.0
    mgrid = emg3d.TensorMesh([hx, hx, np.ones(6)*100.0], (-400, -400, -300))
    model = emg3d.Model(mgrid, rng.uniform(0.5, 2.0, mgrid.shape_cells))
    sn = names[0] if names else ['Tx-1', 'Tx-2']
    fn = names[1] if names else ['f-1', 'f-2', 'f-3']
    srcs = {sn[0]: emg3d.TxElectricDipole((-120., 10., 20., 10., 5.)),
            sn[1]: emg3d.TxElectricDipole((90., -30., -15., 60., -10.))}
    recs = {'Rx-a': emg3d.RxElectricPoint((150., 60., 30., 0., 0.)),
            'Rx-b': emg3d.RxMagneticPoint((-40., -80., -50., 45., 10.))}
    freqs = {f: v for f, v in zip(fn, [0.5, 1.0, 2.0])}
    survey = emg3d.Survey(sources=srcs, receivers=recs, frequencies=freqs,
                          noise_floor=1e-17, relative_error=0.05)
    sizes = dict(zip(fn, [8, 16, 12]))     # small, big, medium

    def grid(n):
        return emg3d.TensorMesh([np.ones(n)*800.0/n, np.ones(8)*100.0,
                                 np.ones(6)*100.0], (-400, -400, -300))
    grids = {s: {f: grid(sizes[f]) for f in freqs} for s in srcs}
    return model, survey, grids


def simulate(model, survey, grids, max_workers, file_dir, what):
    import emg3d
    gr = {'gridding': 'same'} if grids is None else \
        {'gridding': 'dict', 'gridding_opts': grids}
    opts = dict(**gr, max_workers=max_workers,
                verb=-1, receiver_interpolation='linear', tqdm_opts=False,
                solver_opts={'plain': True, 'tol': 1e-7, 'tol_gradient': 1e-4,
                             'maxit': 60})
    if file_dir:
        opts['file_dir'] = file_dir
    sim = emg3d.Simulation(survey=survey.copy(), model=model, **opts)
    out = {}
    sim.compute()
    out['synthetic'] = sim.data.synthetic.data.copy()
    out['fields'] = {}
    for s in survey.sources:
        for f in survey.frequencies:
            e = sim.get_efield(s, f)
            out['fields'][(s, f)] = (e.field.copy(), float(e.frequency),
                                     tuple(e.grid.shape_cells))
    if 'observed' in what:
        return out
    sim.survey.data.observed[...] = what['obs']
    out['misfit'] = float(sim.misfit)
    out['gradient'] = sim.gradient.copy()
    out['jvec'] = sim.jvec(what['v']).copy()
    out['compute_again'] = None
    sim.compute()
    out['compute_again'] = sim.data.synthetic.data.copy()
    if file_dir:
        out['files'] = sorted(os.listdir(file_dir))
    # the forward computation once more from scratch, after gradient / jvec
    # have run (same object, same options)
    sim.clean('computed')
    sim.compute()
    out['recompute'] = sim.data.synthetic.data.copy()
    return out


def suite_sims(ctx):
    rng = ctx.nprng('sims')
    shutil.rmtree(CACHE, ignore_errors=True)
    os.makedirs(CACHE, exist_ok=True)
    model, survey, grids = build(rng)
    with warnings.catch_warnings():
        warnings.simplefilter('ignore')
        base0 = simulate(model, survey, grids, 1, None, {'observed': True})
        obs = base0['synthetic']*(1 + 0.1*rng.standard_normal(
            base0['synthetic'].shape))
        what = {'obs': obs, 'v': rng.standard_normal(model.shape)}
        base = simulate(model, survey, grids, 1, None, what)
        settings = [(2, None), (4, None), (1, 'fd_seq'), (3, 'fd_par')]
        if ctx.thorough:
            settings += [(8, None), (16, None), (16, 'fd_16')]
        bad = []
        for (w, fd) in settings:
            fdir = os.path.join(CACHE, fd) if fd else None
            try:
                res = simulate(model, survey, grids, w, fdir, what)
            except Exception as e:
                ctx.violation('simulation-raises',
                              f'max_workers={w} file_dir={bool(fd)}: '
                              f'{type(e).__name__}: {e}',
                              {'max_workers': w, 'file_based': bool(fd)})
                bad.append((w, fd, 'raised'))
                continue
            for key in ['synthetic', 'misfit', 'gradient', 'jvec',
                        'compute_again', 'recompute']:
                if not np.array_equal(np.asarray(res[key]),
                                      np.asarray(base[key]), equal_nan=True):
                    bad.append((w, fd, key))
                    ctx.violation(
                        'result-depends-on-execution-setting',
                        f'{key} with max_workers={w}'
                        f'{", file based" if fd else ""} is not bit-identical '
                        'to the sequential in-memory result',
                        {'max_workers': w, 'file_based': bool(fd),
                         'quantity': key})
            for (s, f), (fld, fr, shp) in res['fields'].items():
                b = base['fields'][(s, f)]
                if fr != b[1] or shp != b[2] or not np.array_equal(fld, b[0]):
                    bad.append((w, fd, 'slot', s, f))
                    ctx.violation(
                        'slot-holds-foreign-result',
                        f'max_workers={w}{", file based" if fd else ""}: slot '
                        f'({s},{f}) holds a field of frequency {fr} Hz on a '
                        f'grid of shape {shp}; its own task has {b[1]} Hz, '
                        f'shape {b[2]}',
                        {'max_workers': w, 'file_based': bool(fd),
                         'slot': (s, f)})
                    break
            ctx.count(key=('sim', w, fd))
            if fd:
                names = []
                for wt in ['efield', 'bfield', 'gfield']:
                    for s in survey.sources:
                        for f in survey.frequencies:
                            names.append(f'fname {wt} {s} {f}')
                exp = set()
                for o in common.run_driver(names):
                    exp.update(o.split(' '))
                if set(res['files']) != exp:
                    bad.append((w, fd, 'file names'))
                    ctx.oblige('correspondence: file names of the file-based '
                               'mode == PMap.fname', 'correspondence', False,
                               f'{sorted(set(res["files"]) ^ exp)[:4]}')
        # the computational grid IS the model grid (gridding 'same'): the
        # hand-over through files must not change a bit either
        try:
            same0 = simulate(model, survey, None, 1, None, what)
            for (w, fd) in [(2, None), (1, 'fd_same'), (3, 'fd_same_par')]:
                fdir = os.path.join(CACHE, fd) if fd else None
                res = simulate(model, survey, None, w, fdir, what)
                for key in ['synthetic', 'misfit', 'gradient', 'jvec',
                            'compute_again']:
                    if not np.array_equal(np.asarray(res[key]),
                                          np.asarray(same0[key]),
                                          equal_nan=True):
                        bad.append((w, fd, key, 'same'))
                        ctx.violation(
                            'result-depends-on-execution-setting',
                            f'gridding="same": {key} with max_workers={w}'
                            f'{", file based" if fd else ""} is not '
                            'bit-identical to the sequential in-memory result',
                            {'max_workers': w, 'file_based': bool(fd),
                             'quantity': key, 'gridding': 'same'})
                        break
                ctx.count(key=('sim-same', w, fd))
        except Exception as e:      # noqa
            ctx.violation('simulation-raises',
                          f'gridding="same": {type(e).__name__}: {e}',
                          {'gridding': 'same'})
            bad.append(('same', 'raised'))
        # repeat is a no-op
        if not np.array_equal(base['compute_again'], base['synthetic']):
            ctx.violation('repeat-changes-result', 'repeating compute() '
                          'changes the synthetic data', {})
        if not np.array_equal(base['recompute'], base['synthetic']):
            ctx.violation(
                'repeat-changes-result',
                'compute(); gradient; jvec; clean("computed"); compute() '
                'gives other synthetic data than the first compute() of the '
                'same simulation (max rel. diff '
                f'{np.nanmax(np.abs(base["recompute"]-base["synthetic"])/np.abs(base["synthetic"])):.3g})',
                {'sequence': 'compute gradient jvec clean compute'})
            bad.append(('recompute',))
        # names with dots (e.g. frequencies '0.5Hz'): one file per task
        try:
            m3, s3, g3 = build(ctx.nprng('sims'), names=(
                ['Tx.1', 'Tx.2'], ['0.5Hz', '0.8Hz', '0.25Hz']))
            d1 = simulate(m3, s3, g3, 1, None, {'observed': True})
            d2 = simulate(m3, s3, g3, 2, os.path.join(CACHE, 'fd_dots'),
                          {'observed': True})
            for k_ in d1['fields']:
                if not np.array_equal(d1['fields'][k_][0],
                                      d2['fields'][k_][0]):
                    bad.append(('dots', k_))
                    ctx.violation(
                        'slot-holds-foreign-result',
                        f'sources Tx.1, Tx.2 x frequencies 0.5Hz, 0.8Hz, '
                        f'0.25Hz: the file-based field of slot {k_} differs '
                        f'from the in-memory field',
                        {'slot': list(k_), 'names': 'dotted'})
                    break
            ctx.count(key=('sim-dots',))
        except Exception as e:      # noqa
            ctx.violation('simulation-raises',
                          f'names with dots: {type(e).__name__}: {e}',
                          {'names': 'dotted'})
            bad.append(('dots', 'raised'))
        # task list vs model
        o = common.run_driver(['slots | ' + ' '.join(survey.sources) + ' | ' +
                               ' '.join(survey.frequencies)])[0]
        import emg3d
        sim = emg3d.Simulation(survey=survey.copy(), model=model,
                               gridding='dict', gridding_opts=grids, verb=-1,
                               tqdm_opts=False)
        real = ' '.join(f'{s}:{f}' for s, f in sim._srcfreq)
        ctx.oblige('correspondence: task list (_srcfreq) == PMap.srcfreq',
                   'correspondence', real == o, f'{real} vs {o}')
    ctx.cov['simulation_settings_compared'] = len(settings)
    ctx.oblige('correspondence/monitor: synthetic, fields, misfit, gradient, '
               'jvec bit-identical for every worker count and file mode; '
               'slots hold their own task', 'correspondence', not bad,
               str(bad[:3]))
    # known finding: names with underscores collide in file mode
    with warnings.catch_warnings():
        warnings.simplefilter('ignore')
        m2, s2, g2 = build(ctx.nprng('sims'), names=(['a_b', 'a'], ['c', 'b_c']))
        try:
            r1 = simulate(m2, s2, g2, 1, None, {'observed': True})
            r2 = simulate(m2, s2, g2, 1, os.path.join(CACHE, 'fd_us'),
                          {'observed': True})
            same = all(np.array_equal(r1['fields'][k][0], r2['fields'][k][0])
                       for k in r1['fields'])
        except Exception:
            same = False
        if not same:
            ctx.violation('file-name-collision-underscore',
                          'sources a_b, a x frequencies c, b_c: file-based '
                          'fields differ from in-memory fields',
                          {'sources': ['a_b', 'a'], 'frequencies': ['c', 'b_c']})
    shutil.rmtree(CACHE, ignore_errors=True)


def run(ctx):
    ctx.lean('Emg3dVerif.Props.C11', THEOREMS)
    ctx.assumptions += [
        'the task function is a pure function of its pickled input (solver '
        'determinism is monitored by the bit-identity comparison)',
        'OS scheduling itself is not modelled: completion orders are forced by '
        'task run times and observed',
    ]
    suite_pmap(ctx)
    suite_sims(ctx)


def replay(ctx, rp):
    suite_sims(ctx)
    for v in ctx.violations:
        print('replay:', v['sig'], v['what'][:200])
    return 1 if ctx.violations else 0
