"""C02 — matrix-free operator == finite-integration discretisation.

Suites
  exact   : `amat_x.py_func` (source semantics, exact Gaussian rationals) must
            equal the Lean model `Emg.amat` entry by entry (all shapes 1..4 per
            direction; non-PEC fields too, so boundary behaviour is compared).
  spec    : (property oracle, Lean spec) on PEC fields the real kernel's
            interior-edge entries equal `Emg.fitX/Y/Z` = curl^T M_f curl - M_e.
  jit     : compiled kernel vs its own source within a computed rounding bound.
  volume  : `VolumeModel` coefficients vs `etaCoef`/`zetaCoef` (documented
            formulas), anisotropy aliasing, mu_r, epsilon_r, f>0 and f<0.
  wrappers: `solver.residual` and the Krylov `amatvec` are the same kernel.
"""
import itertools
import warnings
from fractions import Fraction as Fr

import numpy as np

from harness import common
from harness.exactnum import (Q, exact_fn, qarr, line, parse, from_float,
                              to_complex)

THEOREMS = [
    'Emg.amat_eq_fit_x', 'Emg.amat_eq_fit_y', 'Emg.amat_eq_fit_z',
    'Emg.amat_near_boundary_x', 'Emg.amat_far_boundary_untouched',
    'Emg.curl_grad_zero', 'Emg.fit_curlcurl_annihilates_grad',
    'Emg.amat_curlcurl_annihilates_grad',
    'Emg.amat_add', 'Emg.amat_smul',
    'Emg.curlT_adjoint', 'Emg.fit_symmetric', 'Emg.amat_symmetric',
    'Emg.eta_formula', 'Emg.zeta_formula',
]


def shapes_of(nx, ny, nz):
    return (nx, ny+1, nz+1), (nx+1, ny, nz+1), (nx+1, ny+1, nz)


def make_case(rng, shp, pec, cplx=True, alias='triaxial'):
    nx, ny, nz = shp
    hx = qarr((nx,), rng, positive=True)
    hy = qarr((ny,), rng, positive=True)
    hz = qarr((nz,), rng, positive=True)
    sx, sy, sz = shapes_of(nx, ny, nz)
    ex, ey, ez = qarr(sx, rng, cplx), qarr(sy, rng, cplx), qarr(sz, rng, cplx)
    if pec:
        z = Q(0)
        ex[:, 0, :] = z; ex[:, -1, :] = z; ex[:, :, 0] = z; ex[:, :, -1] = z
        ey[0, :, :] = z; ey[-1, :, :] = z; ey[:, :, 0] = z; ey[:, :, -1] = z
        ez[0, :, :] = z; ez[-1, :, :] = z; ez[:, 0, :] = z; ez[:, -1, :] = z
    etax = qarr(shp, rng, cplx)
    etay = qarr(shp, rng, cplx) if alias in ('HTI', 'triaxial') else etax
    etaz = qarr(shp, rng, cplx) if alias in ('VTI', 'triaxial') else etax
    zeta = qarr(shp, rng, False, positive=True)
    return dict(shape=shp, hx=hx, hy=hy, hz=hz, eta=(etax, etay, etaz),
                zeta=zeta, e=(ex, ey, ez), pec=pec, alias=alias)


def op_line(op, c):
    nx, ny, nz = c['shape']
    parts = [c['hx'], c['hy'], c['hz'], *c['eta'], c['zeta'], *c['e']]
    return f"{op} {nx} {ny} {nz} | " + " | ".join(line(a) for a in parts)


def run_py(core, c):
    """A e from the kernel's Python source, exactly (r starts at 0:
    r -= A e  =>  A e = -r)."""
    amat = exact_fn(core, 'amat_x')
    zero = [np.full(a.shape, Q(0), dtype=object) for a in c['e']]
    amat(*zero, *c['e'], *c['eta'], c['zeta'], c['hx'], c['hy'], c['hz'])
    return [-r for r in zero]


def parse_out(s, shp):
    nx, ny, nz = shp
    out = []
    for sec, sh in zip(s.split(' | '), shapes_of(nx, ny, nz)):
        vals = [parse(t) for t in sec.split(' ')] if sec else []
        a = np.empty(sh, dtype=object)
        a.ravel(order='K')  # noqa
        flat = np.empty(len(vals), dtype=object)
        flat[:] = vals
        out.append(flat.reshape(sh, order='F'))
    return out


def interior_masks(shp):
    nx, ny, nz = shp
    sx, sy, sz = shapes_of(nx, ny, nz)
    mx = np.zeros(sx, bool); mx[:, 1:-1, 1:-1] = True
    my = np.zeros(sy, bool); my[1:-1, :, 1:-1] = True
    mz = np.zeros(sz, bool); mz[1:-1, 1:-1, :] = True
    return mx, my, mz


class Mag:
    """Magnitude companion: every operation adds/multiplies magnitudes."""
    __slots__ = ('v',)

    def __init__(s, v):
        s.v = float(v)

    @staticmethod
    def c(o):
        return o if isinstance(o, Mag) else Mag(abs(o))

    def __add__(s, o): return Mag(s.v + Mag.c(o).v)
    __radd__ = __add__
    __sub__ = __add__
    __rsub__ = __add__
    def __mul__(s, o): return Mag(s.v * Mag.c(o).v)
    __rmul__ = __mul__
    def __truediv__(s, o): return Mag(s.v / Mag.c(o).v)
    def __rtruediv__(s, o): return Mag(Mag.c(o).v / s.v)
    def __neg__(s): return s


def mag_arr(a):
    out = np.empty(a.shape, dtype=object)
    for idx in np.ndindex(*a.shape):
        out[idx] = Mag(abs(a[idx]))
    return out


def suite_exact(ctx, core):
    rng = ctx.nprng('exact')
    top = 5 if ctx.thorough else 4
    cases = []
    for shp in itertools.product(range(1, top+1), repeat=3):
        alias = ['iso', 'VTI', 'HTI', 'triaxial'][sum(shp) % 4]
        cases.append(make_case(rng, shp, pec=False, alias=alias))
        if min(shp) >= 2 and (ctx.thorough or sum(shp) % 2 == 0):
            cases.append(make_case(rng, shp, pec=True,
                                   cplx=bool(sum(shp) % 3), alias='triaxial'))
    lines = [op_line('amat', c) for c in cases]
    lines += [op_line('fit', c) for c in cases]
    out = common.run_driver(lines)
    bad_model, bad_spec = [], []
    n_entries = 0
    for k, c in enumerate(cases):
        try:
            got = run_py(core, c)
        except Exception as e:
            bad_model.append((c, f'kernel source raised {type(e).__name__}: {e}'))
            continue
        exp = parse_out(out[k], c['shape'])
        spec = parse_out(out[len(cases)+k], c['shape'])
        masks = interior_masks(c['shape'])
        for comp, (g, m, sp, mk) in enumerate(zip(got, exp, spec, masks)):
            n_entries += g.size
            neq = np.array([a != b for a, b in zip(g.ravel(), m.ravel())]
                           ).reshape(g.shape) if g.size else np.zeros(g.shape, bool)
            if neq.any():
                idx = tuple(int(i) for i in np.argwhere(neq)[0])
                bad_model.append((c, f'component {"xyz"[comp]} entry {idx}: '
                                     f'code {g[idx]} vs model {m[idx]}'))
            if c['pec'] and mk.any():
                neq = np.array([a != b for a, b in zip(g.ravel(), sp.ravel())]
                               ).reshape(g.shape) & mk
                if neq.any():
                    idx = tuple(int(i) for i in np.argwhere(neq)[0])
                    bad_spec.append((c, comp, idx, g[idx], sp[idx]))
        ctx.count(key=('exact', c['shape'], c['pec'], c['alias']))
    ctx.cov['exact_cases'] = len(cases)
    ctx.cov['exact_entries_compared'] = n_entries
    ctx.oblige('correspondence: amat_x.py_func == Emg.amat (exact, all shapes '
               f'1..{top} per direction)', 'correspondence', not bad_model,
               f'{len(bad_model)} cases differ; first: '
               f'{[b[1] for b in bad_model[:2]]}')
    ctx.samples.append({'exact_case_shape': cases[-1]['shape'],
                        'hx': [str(v) for v in cases[-1]['hx']],
                        'model_output_head': out[len(cases)-1][:200]})
    for (c, comp, idx, g, sp) in bad_spec[:3]:
        ctx.violation(
            'operator-differs-from-FIT',
            f'interior {"xyz"[comp]}-edge {idx} on shape {c["shape"]}: kernel '
            f'gives {g}, finite-integration operator gives {sp}',
            {'case': ser_case(c), 'component': 'xyz'[comp], 'edge': idx})
    return bad_model, bad_spec


def ser_case(c):
    return {'shape': c['shape'], 'pec': c['pec'], 'alias': c['alias'],
            'op_line': op_line('fit', c)}


def suite_jit(ctx, core):
    """Compiled kernel vs its own source, within 256*eps*(sum of |terms|)."""
    rng = ctx.nprng('jit')
    amat = exact_fn(core, 'amat_x')
    bad = []
    n = 12 if ctx.thorough else 5
    worst = 0.0
    for t in range(n):
        shp = tuple(int(x) for x in rng.integers(2, 6, 3))
        nx, ny, nz = shp
        h = [rng.uniform(0.5, 3.0, k) for k in shp]
        sx, sy, sz = shapes_of(*shp)
        e = [rng.standard_normal(s) + 1j*rng.standard_normal(s)
             for s in (sx, sy, sz)]
        eta = [rng.standard_normal(shp) + 1j*rng.standard_normal(shp)
               for _ in range(3)]
        zeta = rng.uniform(0.5, 2.0, shp)
        r = [np.zeros(s, dtype=complex, order='F') for s in (sx, sy, sz)]
        core.amat_x(*r, *[np.asfortranarray(a) for a in e],
                    *[np.asfortranarray(a) for a in eta],
                    np.asfortranarray(zeta), *h)
        re = [np.full(s, Q(0), dtype=object) for s in (sx, sy, sz)]
        amat(*re, *[from_float(a) for a in e], *[from_float(a) for a in eta],
             from_float(zeta), *[from_float(a) for a in h])
        rm = [np.full(s, Mag(0), dtype=object) for s in (sx, sy, sz)]
        amat(*rm, *[mag_arr(a) for a in e], *[mag_arr(a) for a in eta],
             mag_arr(zeta), *[mag_arr(a) for a in h])
        for comp in range(3):
            ex = to_complex(re[comp])
            bound = 256*np.finfo(float).eps*np.array(
                [m.v for m in rm[comp].ravel()]).reshape(rm[comp].shape)
            err = abs(r[comp] - ex)
            ratio = float(np.max(err/np.maximum(bound, 1e-300))) if err.size else 0
            worst = max(worst, ratio)
            if (err > bound).any():
                idx = tuple(int(i) for i in np.argwhere(err > bound)[0])
                bad.append((shp, comp, idx, r[comp][idx], ex[idx]))
        # the operator is linear in the coefficients: scaling eta and zeta
        # by a power of two (tiny / huge cells, weak conductivities) scales
        # the result by exactly that power
        for p2 in (-90, 70):
            r2 = [np.zeros(s, dtype=complex, order='F') for s in (sx, sy, sz)]
            core.amat_x(*r2, *[np.asfortranarray(a) for a in e],
                        *[np.asfortranarray(a*2.0**p2) for a in eta],
                        np.asfortranarray(zeta*2.0**p2), *h)
            if not all(np.array_equal(a2, a*2.0**p2) for a2, a in zip(r2, r)):
                bad.append((shp, 'scaling', p2))
                ctx.violation(
                    'operator-not-linear-in-coefficients',
                    f'compiled amat_x on shape {shp}: scaling eta and zeta by '
                    f'2^{p2} does not scale A e by exactly 2^{p2}',
                    {'shape': list(shp), 'power': p2})
                break
        ctx.count(key=('jit', shp, t))
    ctx.cov['jit_worst_error_over_bound'] = worst
    ctx.oblige('correspondence: compiled amat_x == its Python source within '
               '256 eps sum|terms|', 'correspondence', not bad,
               f'{len(bad)} entries out of bound; first {bad[:1]}')
    return bad


def suite_volume(ctx):
    """VolumeModel vs the documented formulas (Lean etaCoef / zetaCoef)."""
    import emg3d
    import scipy.constants as sc
    rng = ctx.nprng('vol')
    lines, meta = [], []
    viol = []
    n = 24 if ctx.thorough else 10
    for t in range(n):
        shp = tuple(int(x) for x in rng.integers(2, 5, 3))
        hs = [rng.uniform(0.5, 20.0, k) for k in shp]
        grid = emg3d.TensorMesh(hs, origin=(0, 0, 0))
        case = ['isotropic', 'HTI', 'VTI', 'triaxial'][t % 4]
        props = {'property_x': rng.uniform(0.01, 10, shp)}
        if case in ('HTI', 'triaxial'):
            props['property_y'] = rng.uniform(0.01, 10, shp)
        if case in ('VTI', 'triaxial'):
            props['property_z'] = rng.uniform(0.01, 10, shp)
        with_mu = bool((t // 4) % 2)
        with_eps = bool((t // 2) % 2)
        if with_mu:
            # every third one: permeabilities within 1e-5 (1e-9) of one
            props['mu_r'] = rng.uniform(0.5, 3, shp) if t % 3 else \
                1.0 + rng.uniform(-1, 1, shp)*[1e-5, 1e-9][(t // 3) % 2]
        if with_eps:
            props['epsilon_r'] = rng.uniform(1, 80, shp)
        mapping = 'Conductivity'
        model = emg3d.Model(grid, mapping=mapping, **props)
        fopts = [1.0, 3.7e4, 2.5e7, -1.0, -4.0e5, -0.37,
                 # integer-typed frequencies / Laplace parameters
                 -2, np.int64(-3), 5, -7]
        freq_in = fopts[(t*7 + int(rng.integers(0, 2))) % len(fopts)]
        freq = float(freq_in)
        sf = emg3d.Field(grid, frequency=freq_in)
        try:
            # the operator of a model must not depend on how often it was
            # built: build it twice from the same Model instance (every
            # second case), keep the second one
            if t % 2:
                before = {k: np.array(getattr(model, k), copy=True)
                          for k in props}
                emg3d.models.VolumeModel(model, sf)
                for k, v0 in before.items():
                    if not np.array_equal(v0, getattr(model, k)):
                        viol.append(f'VolumeModel changed model.{k}')
            vm = emg3d.models.VolumeModel(model, sf)
            got = {'x': vm.eta_x, 'y': vm.eta_y, 'z': vm.eta_z,
                   'zeta': vm.zeta}
        except Exception as e:
            ctx.violation('volume-model-raises', f'{type(e).__name__}: {e}',
                          {'case': case, 'freq': freq, 'shape': shp})
            continue
        # documented: s = 2 i pi f (f>0) or -f (f<0)
        s = 2j*np.pi*freq if freq > 0 else -freq
        smu0 = complex(s*sc.mu_0)
        seps0 = (Q.c(complex(s)) * Q.c(sc.epsilon_0))
        vol = np.asarray(grid.cell_volumes).reshape(shp, order='F')
        vol_exact = (from_float(hs[0])[:, None, None] *
                     from_float(hs[1])[None, :, None] *
                     from_float(hs[2])[None, None, :])
        src = {'x': 'property_x',
               'y': 'property_y' if case in ('HTI', 'triaxial') else 'property_x',
               'z': 'property_z' if case in ('VTI', 'triaxial') else 'property_x'}
        pick = [tuple(int(rng.integers(0, k)) for k in shp) for _ in range(3)]
        for idx in pick:
            for d in 'xyz':
                sig = props[src[d]][idx]
                epsr = props['epsilon_r'][idx] if with_eps else 0.0
                lines.append(f"eta {fmtc(smu0)} {fmtq(seps0)} {fmtc(sig)} "
                             f"{fmtc(epsr)} {fmtq(vol_exact[idx])}")
                meta.append((got[d][idx], case, freq, with_mu, with_eps, shp,
                             idx, 'eta_'+d))
            mur = props['mu_r'][idx] if with_mu else 1.0
            lines.append(f"zeta {fmtq(vol_exact[idx])} {fmtc(mur)}")
            meta.append((got['zeta'][idx], case, freq, with_mu, with_eps, shp,
                         idx, 'zeta'))
        ctx.count(key=('vol', case, freq > 0, with_mu, with_eps))
        # dtype: real for Laplace, complex for frequency domain
        if (freq < 0) != np.isrealobj(vm.eta_x):
            viol.append(f'eta dtype {vm.eta_x.dtype} for frequency {freq}')
    out = common.run_driver(lines)
    bad = []
    for o, m in zip(out, meta):
        exp = complex(parse(o))
        g = complex(m[0])
        if abs(g - exp) > 16*np.finfo(float).eps*abs(exp):
            bad.append((m[1:], g, exp))
    ctx.cov['volume_coefficients_compared'] = len(lines)
    ctx.oblige('correspondence: VolumeModel eta/zeta == etaCoef/zetaCoef '
               '(documented formula) within 16 ulp', 'correspondence',
               not bad and not viol,
               f'{len(bad)} coefficients differ; first {bad[:1]} {viol[:1]}')
    for b in bad[:2]:
        ctx.violation(
            'coefficients-differ-from-documented',
            f'VolumeModel {b[0][6]} at cell {b[0][5]}: got {b[1]}, documented '
            f'formula gives {b[2]} (case {b[0][0]}, f={b[0][1]}, mu_r='
            f'{b[0][2]}, eps_r={b[0][3]})',
            {'case': b[0][0], 'frequency': b[0][1], 'mu_r': b[0][2],
             'epsilon_r': b[0][3], 'shape': b[0][4], 'cell': b[0][5],
             'coefficient': b[0][6], 'got': str(b[1]), 'expected': str(b[2])})
    for v in viol[:1]:
        ctx.violation('coefficients-dtype' if 'dtype' in v else
                      'volume-model-mutates-model', v, {'what': v})
    return bad


def fmtq(q):
    from harness.exactnum import fmt
    return fmt(q)


def fmtc(x):
    return fmtq(Q.c(complex(x)))


def suite_wrappers(ctx, core):
    """solver.residual and the Krylov matvec are thin wrappers of amat_x."""
    import emg3d
    from emg3d import solver as S
    rng = ctx.nprng('wrap')
    bad = []
    for t in range(6 if ctx.thorough else 3):
        shp = tuple(int(x) for x in rng.integers(3, 7, 3))
        hs = [rng.uniform(0.5, 5.0, k) for k in shp]
        grid = emg3d.TensorMesh(hs, origin=(0, 0, 0))
        model = emg3d.Model(grid, rng.uniform(0.1, 5, shp),
                            property_z=rng.uniform(0.1, 5, shp))
        freq = [1.0, -2.0, 300.][t % 3]
        sf = emg3d.Field(grid, frequency=freq)
        sf.field[:] = rng.standard_normal(sf.field.size)
        ef = emg3d.Field(grid, frequency=freq)
        ef.field[:] = rng.standard_normal(ef.field.size)
        vm = emg3d.models.VolumeModel(model, sf)
        r = S.residual(vm, sf, ef)
        ref = sf.copy()
        core.amat_x(ref.fx, ref.fy, ref.fz, ef.fx, ef.fy, ef.fz, vm.eta_x,
                    vm.eta_y, vm.eta_z, vm.zeta, *grid.h)
        nrm = S.residual(vm, sf, ef, True)
        if not np.array_equal(r.field, ref.field):
            bad.append(('residual', shp, freq))
        if not np.isclose(nrm, np.linalg.norm(ref.field), rtol=1e-14):
            bad.append(('residual-norm', shp, freq))
        ctx.count(key=('wrap', shp, freq))
    ctx.oblige('correspondence: solver.residual(model, s, e) == s - amat_x(e) '
               'bit for bit; its norm is the 2-norm', 'correspondence',
               not bad, str(bad[:2]))
    return bad


def run(ctx):
    from emg3d import core
    ctx.lean('Emg3dVerif.Props.C02', THEOREMS)
    ctx.assumptions += [
        'IEEE rounding / numba code generation are outside the proof: the '
        'compiled kernel is compared with its source under a computed bound',
        'property maps (backward) are the subject of C14; here conductivity '
        'is given directly',
    ]
    with warnings.catch_warnings():
        warnings.simplefilter('ignore')
        bad_model, bad_spec = suite_exact(ctx, core)
        bad_jit = suite_jit(ctx, core)
        bad_vol = suite_volume(ctx)
        bad_wr = suite_wrappers(ctx, core)
    broken = bool(bad_model or bad_jit or bad_wr)
    if broken and not ctx.violations:
        # the model no longer describes the code; the spec oracle above found
        # nothing on the quick set: widen it before giving up
        rng = ctx.nprng('search')
        found = False
        cases = [make_case(rng, tuple(int(x) for x in rng.integers(2, 6, 3)),
                           pec=True) for _ in range(40)]
        out = common.run_driver([op_line('fit', c) for c in cases])
        for c, o in zip(cases, out):
            try:
                got = run_py(core, c)
            except Exception:
                continue
            spec = parse_out(o, c['shape'])
            for comp, (g, sp, mk) in enumerate(
                    zip(got, spec, interior_masks(c['shape']))):
                neq = np.array([a != b for a, b in zip(g.ravel(), sp.ravel())]
                               ).reshape(g.shape) & mk
                if neq.any():
                    idx = tuple(int(i) for i in np.argwhere(neq)[0])
                    ctx.violation(
                        'operator-differs-from-FIT',
                        f'interior {"xyz"[comp]}-edge {idx}, shape '
                        f'{c["shape"]}: kernel {g[idx]} vs FIT {sp[idx]}',
                        {'case': ser_case(c), 'edge': idx})
                    found = True
                    break
            if found:
                break
        if not found:
            what = (bad_model[:1] or bad_jit[:1] or bad_wr[:1])
            ctx.violation(
                'model-correspondence-broken',
                'the code no longer computes the function of the Lean model '
                f'(first difference: {str(what)[:300]}); on 40 further PEC '
                'fields the interior entries still equal the FIT operator',
                {'correspondence': 'amat', 'first': str(what)[:1000]},
                found_input=False)


def replay(ctx, rp):
    from emg3d import core
    r = rp['replay']
    if 'case' not in r:
        print('replay: no input recorded:', rp['what'])
        return 1
    ln = r['case']['op_line']
    w = ln.split(' | ')
    nx, ny, nz = map(int, w[0].split()[1:4])

    def arr(s, shape):
        vals = [parse(t) for t in s.split(' ')]
        a = np.empty(len(vals), dtype=object)
        a[:] = vals
        return a.reshape(shape, order='F')
    shp = (nx, ny, nz)
    sx, sy, sz = shapes_of(*shp)
    c = dict(shape=shp, hx=arr(w[1], (nx,)), hy=arr(w[2], (ny,)),
             hz=arr(w[3], (nz,)),
             eta=(arr(w[4], shp), arr(w[5], shp), arr(w[6], shp)),
             zeta=arr(w[7], shp),
             e=(arr(w[8], sx), arr(w[9], sy), arr(w[10], sz)))
    got = run_py(core, c)
    spec = parse_out(common.run_driver([ln])[0], shp)
    nbad = 0
    for g, sp, mk in zip(got, spec, interior_masks(shp)):
        neq = np.array([a != b for a, b in zip(g.ravel(), sp.ravel())]
                       ).reshape(g.shape) & mk
        nbad += int(neq.sum())
    print(f'replay: {nbad} interior entries differ from the FIT operator')
    return 1 if nbad else 0
