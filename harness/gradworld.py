"""Small inversion worlds for C07 / C08: stretched grids, all mappings and
anisotropy cases, mixed source / receiver types, missing data, noise settings."""
import warnings

import numpy as np

MAPS = ['Conductivity', 'LgConductivity', 'LnConductivity', 'Resistivity',
        'LgResistivity', 'LnResistivity']
CASES = {'isotropic': ('x',), 'HTI': ('x', 'y'), 'VTI': ('x', 'z'),
         'triaxial': ('x', 'y', 'z')}
SOLVER = {'sslsolver': 'bicgstab', 'semicoarsening': True,
          'linerelaxation': True, 'tol': 1e-11, 'tol_gradient': 1e-11,
          'maxit': 200}


def stretched(n, h0, rng):
    a = float(rng.choice([1.0, 1.15, 1.3]))
    left = h0*a**np.arange(n//2, 0, -1)
    right = h0*a**np.arange(1, n - n//2 + 1)
    return np.r_[left, right]*float(rng.uniform(0.9, 1.1))


class World:
    def __init__(self, emg3d, rng, case, mapping, shape=(8, 4, 4),
                 nsrc=2, nfreq=2, relative=False, noise='scalar',
                 gridding='same', uniform=False, edge_rec=False):
        self.emg3d, self.case, self.mapping = emg3d, case, mapping
        hs = [np.ones(n)*100.0 if uniform else stretched(n, 80.0, rng)
              for n in shape]
        org = [-h.sum()/2 + float(rng.uniform(-10, 10)) for h in hs]
        self.grid = emg3d.TensorMesh(hs, org)
        shp = self.grid.shape_cells
        self.mp = getattr(emg3d.maps, 'Map'+mapping)()
        self.sig = {d: 10.0**rng.uniform(-0.5, 0.5, shp) for d in CASES[case]}
        with warnings.catch_warnings():
            warnings.simplefilter('ignore')
            self.model = emg3d.Model(self.grid, mapping=mapping, **{
                'property_'+d: self.mp.forward(s) for d, s in self.sig.items()})
        g = self.grid
        # positions well inside (second .. second-last cell)
        def inside(frac):
            return [float(g.origin[i] + frac[i]*g.h[i].sum()) for i in range(3)]
        # weak sources for the unweighted misfit: residual x weight far below
        # any absolute threshold (everything is linear in the strength)
        st = 1e-4 if noise == 'unit' else 1.0
        stypes = [
            emg3d.TxElectricDipole((*inside((0.35, 0.45, 0.55)), 30., 10.),
                                   strength=st),
            emg3d.TxMagneticPoint((*inside((0.6, 0.55, 0.45)), 20., 70.),
                                  strength=st),
            emg3d.TxElectricWire(np.array([inside((0.4, 0.4, 0.5)),
                                           inside((0.5, 0.45, 0.5)),
                                           inside((0.55, 0.6, 0.55))]),
                                 strength=st),
            emg3d.TxElectricPoint((*inside((0.5, 0.5, 0.5)), 0., 0.),
                                  strength=2.0*st),
        ]
        order = rng.permutation(len(stypes))
        self.sources = {f'Tx-{i+1}': stypes[int(order[i])]
                        for i in range(nsrc)}
        if relative:
            recs = {'Rx-1': emg3d.RxElectricPoint(
                        (60., 40., 20., 0., 0.), relative=True),
                    'Rx-2': emg3d.RxMagneticPoint(
                        (-50., 30., -25., 45., 10.), relative=True),
                    'Rx-3': emg3d.RxElectricPoint(
                        (*inside((0.7, 0.6, 0.6)), 90., 20.))}
        else:
            recs = {'Rx-1': emg3d.RxElectricPoint(
                        (*inside((0.7, 0.35, 0.6)), 0., 0.)),
                    'Rx-2': emg3d.RxMagneticPoint(
                        (*inside((0.3, 0.65, 0.4)), 45., 10.)),
                    'Rx-3': emg3d.RxElectricPoint(
                        (*inside((0.65, 0.6, 0.35)), 90., 20.))}
        if edge_rec:
            # a receiver in the outermost cell of the grid: its synthetic
            # response is NaN (boundary), its observation (set below) is not
            fx = 0.4*float(g.h[0][0])/float(g.h[0].sum())
            recs['Rx-4'] = emg3d.RxElectricPoint(
                (*inside((fx, 0.5, 0.5)), 10., 0.))
        freqs = {f'f-{i+1}': f for i, f in enumerate([1.0, 3.0][:nfreq])}
        kw = {}
        nd = (nsrc, len(recs), nfreq)
        if noise == 'scalar':
            kw = {'noise_floor': 1e-15, 'relative_error': 0.05}
        elif noise == 'array':
            kw = {'noise_floor': rng.uniform(1e-16, 1e-14, nd),
                  'relative_error': rng.uniform(0.02, 0.1, nd)}
        elif noise == 'relative-only':
            kw = {'relative_error': 0.03}
        elif noise == 'unit':
            # unweighted misfit: weights 1, residual x weight of the size of
            # the data themselves (1e-10 .. 1e-14)
            kw = {'noise_floor': 1.0}
        self.survey = emg3d.Survey(sources=self.sources, receivers=recs,
                                   frequencies=freqs, **kw)
        self.gridding = gridding
        self.opts = dict(gridding=gridding, max_workers=1, verb=-1,
                         tqdm_opts=False, receiver_interpolation='linear',
                         solver_opts=dict(SOLVER), name='w')
        if noise == 'unit':
            # SciPy's bicgstab breaks down on absolute thresholds for such
            # weak sources (reported as an error, which C01 allows): plain
            # multigrid has relative criteria only
            self.opts['solver_opts'] = dict(
                SOLVER, sslsolver=False, cycle='F', maxit=300)
        if gridding != 'same':
            self.opts['gridding_opts'] = self.gridding_opts(rng)
        # observed data from a perturbed model, with gaps
        true = self.model_of({d: s*10.0**rng.uniform(-0.1, 0.1, s.shape)
                              for d, s in self.sig.items()})
        with warnings.catch_warnings():
            warnings.simplefilter('ignore')
            s0 = emg3d.Simulation(survey=self.survey.copy(), model=true,
                                  **self.opts)
            s0.compute(observed=True, add_noise=False)
        obs = s0.survey.data.observed.data.copy()
        if edge_rec:
            obs[:, 3, :] = obs[:, 0, :]*(0.3+0.2j)
        obs[0, 1, 0] = np.nan + 1j*np.nan
        if nsrc > 1:
            obs[1, 2, :] = np.nan + 1j*np.nan
        self.survey = s0.survey.copy()
        self.survey.data['observed'] = self.survey.data.observed.copy(data=obs)
        if 'synthetic' in self.survey.data:
            del self.survey.data['synthetic']
        if noise == 'std':
            self.survey.data['standard_deviation'] = \
                self.survey.data.observed.copy(
                    data=rng.uniform(0.5, 2, nd)*1e-12)

    def gridding_opts(self, rng):
        """Computational grids with (for 8 cells) the same number of cells as
        the model grid but other nodes."""
        g = self.grid
        ext = [float(g.h[i].sum()) for i in range(3)]
        dmin = [e/4.5 for e in ext]
        return {'center': tuple(float(g.origin[i]+ext[i]/2) for i in range(3)),
                'domain': tuple([float(g.origin[i]),
                                 float(g.origin[i]+ext[i])] for i in range(3)),
                'min_width_limits': tuple(dmin), 'stretching': [1.0, 1.6],
                'max_buffer': 1.4*min(dmin), 'lambda_factor': 1.0,
                'cell_numbers': [8, 16], 'center_on_edge': False,
                'properties': [1.0, 1.0], 'mapping': 'Conductivity'}

    def model_of(self, sig):
        with warnings.catch_warnings():
            warnings.simplefilter('ignore')
            return self.emg3d.Model(self.grid, mapping=self.mapping, **{
                'property_'+d: self.mp.forward(s) for d, s in sig.items()})

    def model_at(self, x):
        """Model from the mapped parameters x (ncomp, nx, ny, nz)."""
        with warnings.catch_warnings():
            warnings.simplefilter('ignore')
            return self.emg3d.Model(self.grid, mapping=self.mapping, **{
                'property_'+d: x[i] for i, d in enumerate(CASES[self.case])})

    def x0(self):
        return np.array([getattr(self.model, 'property_'+d)
                         for d in CASES[self.case]])

    def sim(self, model=None, **kw):
        with warnings.catch_warnings():
            warnings.simplefilter('ignore')
            return self.emg3d.Simulation(
                survey=self.survey.copy(),
                model=self.model if model is None else model,
                **{**self.opts, **kw})
