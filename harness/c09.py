"""C09 — receiver sampling and point sources are exact transposes; reciprocity.

Suites
  recv   : `fields.get_receiver(method='linear')` == `Src.receiverLinear`
           (trilinear interpolation on the staggered coordinates, rotation
           factors, NaN policy) — T-float with a computed bound.
  transp : (property, real code) receiver(field, p) == <point_vector(p), field>
           for electric receivers; magnetic receivers through
           `get_magnetic_field` vs `_point_vector_magnetic` (mu_r = 1), in the
           frequency AND the Laplace domain.
  ecf    : `_edge_curl_factor.py_func` (exact) == `Src.edgeCurlFactor`.
  nan    : receivers outside the grid or in its outermost cells give NaN.
  recip  : exchanging point source and point receiver of the same kind leaves
           the response unchanged to the solver tolerance (real solves).
"""
import warnings
from fractions import Fraction as Fr

import numpy as np

from harness import common, c02, c10
from harness.exactnum import Q, exact_fn, qarr, line, parse

THEOREMS = [
    'Src.interp_interval_irrelevant', 'Src.w1s_eq_w1_functional',
    'Src.receiver_eq_pointvector', 'Src.receiver_linear',
    'Src.edgeCurlFactor_is_faraday', 'Src.magnetic_receiver_adjoint',
    'Src.reciprocity', 'Src.nan_policy_second_cell',
]

fq = c10.fq


def suite_recv(ctx):
    import emg3d
    from emg3d import fields, electrodes
    rng = ctx.nprng('recv')
    lines, reals = [], []
    n = 150 if ctx.thorough else 50
    for t in range(n):
        hs = [rng.integers(1, 9, int(rng.integers(4, 8)))/2.0 for _ in range(3)]
        far = t % 5 == 4
        if far:
            # UTM-like coordinates, cells of 10 .. 80 m
            hs = [h*20.0 for h in hs]
            grid = emg3d.TensorMesh(hs, (437250., 6731400., -2450.))
        else:
            grid = emg3d.TensorMesh(hs, tuple(float(rng.integers(-4, 3))
                                              for _ in range(3)))
        rtol = 1e-7 if far else 1e-13
        cplx = bool(t % 2)
        f = emg3d.Field(grid, frequency=1.0 if cplx else -1.0)
        f.field[:] = rng.integers(-16, 17, f.field.size)/4.0
        if cplx:
            f.field[:] = f.field + 1j*rng.integers(-16, 17, f.field.size)/4.0
        kind = ['generic', 'node', 'generic', 'edge'][t % 4]
        pos = []
        for d, nodes in enumerate((grid.nodes_x, grid.nodes_y, grid.nodes_z)):
            m = len(nodes)
            if kind == 'node' or (kind == 'edge' and d != t % 3):
                pos.append(float(nodes[int(rng.integers(1, m-1))]))
            else:
                i = int(rng.integers(1, m-2))
                pos.append(float(nodes[i] + (nodes[i+1]-nodes[i]) *
                                 rng.integers(0, 9)/8))
        az = float(rng.choice([0, 90, 180, -90, 45, 30, -135, 12.5]))
        el = float(rng.choice([0, 90, -90, 45, -30, 10.0]))
        d = electrodes.rotation(az, el)
        with warnings.catch_warnings():
            warnings.simplefilter('ignore')
            got = complex(fields.get_receiver(f, (*pos, az, el),
                                              method='linear'))
            pv = fields._point_vector(grid, (*pos, az, el))
        # transpose identity on the real code
        ip = complex(np.sum(pv.field*f.field))
        scale = np.abs(f.field).max()
        if not (np.isnan(got.real) or abs(got - ip) <= rtol*scale):
            ctx.violation(
                'receiver-not-transpose-of-point-source',
                f'get_receiver at {(*pos, az, el)} gives {got}, <point '
                f'vector, field> = {ip}', {'position': (*pos, az, el),
                                           'shape': grid.shape_cells})

        def ln(comp):
            return ' '.join(fq(v) for v in comp.real.ravel('F')), \
                ' '.join(fq(v) for v in comp.imag.ravel('F'))
        for part in (0, 1) if cplx else (0,):
            flds = [ln(c)[part] for c in (f.fx, f.fy, f.fz)]
            lines.append(f"recv | {c10.nodes_line(grid)} | {flds[0]} | "
                         f"{flds[1]} | {flds[2]} | {fq(pos[0])} {fq(pos[1])} "
                         f"{fq(pos[2])} {fq(d[0])} {fq(d[1])} {fq(d[2])}")
        reals.append((got, cplx, (*pos, az, el), scale*(rtol/1e-13)))
        ctx.count(key=('recv', kind, az, el, grid.shape_cells))
    # several receivers in one call: every value is that of the receiver
    # alone (orientations that cancel in the sum included)
    batch_bad = []
    for t in range(12 if ctx.thorough else 5):
        hs = [rng.integers(1, 9, int(rng.integers(4, 8)))/2.0 for _ in range(3)]
        grid = emg3d.TensorMesh(hs, (0., 0., 0.))
        f = emg3d.Field(grid, frequency=1.0)
        f.field[:] = rng.integers(-16, 17, f.field.size)/4.0 + \
            1j*rng.integers(-16, 17, f.field.size)/4.0
        layouts = [([30., -30.], [0., 0.]), ([0., 180.], [0., 0.]),
                   ([0., 0.], [20., -20.]), ([45., 135., -135., -45.],
                                            [0., 0., 0., 0.]),
                   ([90., -90., 10.], [0., 0., 90.]),
                   ([12.5, 77.0, -140.], [5., -60., 33.])]
        az, el = layouts[t % len(layouts)]
        m_ = len(az)
        xyz = [np.array([float(nodes[1] + (nodes[-2]-nodes[1]) *
                               rng.uniform(0.05, 0.95)) for _ in range(m_)])
               for nodes in (grid.nodes_x, grid.nodes_y, grid.nodes_z)]
        for method in ('linear', 'cubic'):
            with warnings.catch_warnings():
                warnings.simplefilter('ignore')
                together = np.asarray(fields.get_receiver(
                    f, (*xyz, np.array(az), np.array(el)), method=method))
                alone = np.array([complex(fields.get_receiver(
                    f, (xyz[0][q], xyz[1][q], xyz[2][q], az[q], el[q]),
                    method=method)) for q in range(m_)])
            # sampling is linear in the field: fields of the size of CSEM data
            with warnings.catch_warnings():
                warnings.simplefilter('ignore')
                f2 = emg3d.Field(grid, frequency=1.0)
                f2.field[:] = f.field*2.0**-50
                tiny = np.asarray(fields.get_receiver(
                    f2, (*xyz, np.array(az), np.array(el)), method=method))
            if not np.allclose(tiny, together*2.0**-50, rtol=1e-12, atol=0,
                               equal_nan=True):
                batch_bad.append(('scale', method, az, el))
                ctx.violation(
                    'receiver-not-linear',
                    f'get_receiver({method}) of 2^-50 x field differs from '
                    f'2^-50 x get_receiver(field)',
                    {'azimuth': az, 'elevation': el, 'method': method})
            if together.shape != alone.shape or not np.allclose(
                    together, alone, rtol=1e-12, atol=1e-13, equal_nan=True):
                batch_bad.append((method, az, el))
                ctx.violation(
                    'receiver-depends-on-companions',
                    f'get_receiver({method}) for receivers with azimuths '
                    f'{az}, elevations {el} in one call gives '
                    f'{together.tolist()}, one by one {alone.tolist()}',
                    {'azimuth': az, 'elevation': el, 'method': method,
                     'shape': grid.shape_cells})
        # point sources in the outermost cells (where receivers give NaN) are
        # legal: a vector comes back and it carries the unit moment
        for q in range(3):
            pos_o = []
            for d_, nodes in enumerate((grid.nodes_x, grid.nodes_y,
                                        grid.nodes_z)):
                lo = (q + d_) % 3
                if lo == 0:      # first cell
                    pos_o.append(float(nodes[0] + (nodes[1]-nodes[0]) *
                                       rng.uniform(0.05, 0.95)))
                elif lo == 1:    # last cell
                    pos_o.append(float(nodes[-2] + (nodes[-1]-nodes[-2]) *
                                       rng.uniform(0.05, 0.95)))
                else:
                    pos_o.append(float(nodes[1] + (nodes[-2]-nodes[1]) *
                                       rng.uniform(0.05, 0.95)))
            try:
                with warnings.catch_warnings():
                    warnings.simplefilter('ignore')
                    pvo = fields._point_vector(grid, (*pos_o, az[0], el[0]))
                dd = electrodes.rotation(az[0], el[0])
                mom = np.array([pvo.fx.sum(), pvo.fy.sum(), pvo.fz.sum()])
                oko = np.allclose(mom.real, dd, rtol=0, atol=1e-12) and \
                    np.allclose(mom.imag, 0, atol=1e-12)
                deto = f'moment {mom.tolist()}, direction {list(dd)}'
            except Exception as e:      # noqa
                oko, deto = False, f'{type(e).__name__}: {e}'
            if not oko:
                batch_bad.append(('outer-cell source', pos_o))
                ctx.violation(
                    'point-source-in-outermost-cell',
                    f'_point_vector for a point source at {pos_o} (inside '
                    f'the grid, in an outermost cell): {deto}',
                    {'position': pos_o, 'azimuth': az[0],
                     'elevation': el[0], 'shape': grid.shape_cells})
        # a receiver carpet: coordinates with more than one dimension
        # (x[:, None], y[None, :]) of a non-square layout, some positions in
        # the outermost cells (NaN)
        cx = np.array([float(grid.nodes_x[0] + (grid.nodes_x[-1] -
                       grid.nodes_x[0])*u) for u in (0.02, 0.35, 0.6, 0.81)])
        cy = np.array([float(grid.nodes_y[1] + (grid.nodes_y[-2] -
                       grid.nodes_y[1])*u) for u in (0.15, 0.5, 0.9)])
        cz = float(grid.nodes_z[1] + (grid.nodes_z[-2]-grid.nodes_z[1])*0.4)
        for method in ('linear', 'cubic'):
            with warnings.catch_warnings():
                warnings.simplefilter('ignore')
                carpet = np.asarray(fields.get_receiver(
                    f, (cx[:, None], cy[None, :], cz, az[0], el[0]),
                    method=method))
                single = np.array([[complex(fields.get_receiver(
                    f, (a, b, cz, az[0], el[0]), method=method))
                    for b in cy] for a in cx])
            if carpet.shape != single.shape or not np.allclose(
                    carpet, single, rtol=1e-12, atol=1e-13, equal_nan=True):
                batch_bad.append(('carpet', method))
                ctx.violation(
                    'receiver-depends-on-companions',
                    f'get_receiver({method}) for a {cx.size} x {cy.size} '
                    f'carpet of receivers (x[:, None], y[None, :]) gives '
                    f'{carpet.tolist()}, one by one {single.tolist()}',
                    {'azimuth': az[0], 'elevation': el[0], 'method': method,
                     'shape': grid.shape_cells, 'layout': 'carpet'})
        ctx.count(key=('recv-batch', t, tuple(az), tuple(el)))
    out = common.run_driver(lines, jobs=8)
    bad = []
    bad += batch_bad
    k = 0
    for got, cplx, pos, scale in reals:
        flag, re = out[k].split(' ')
        ex = float(Fr(re))
        k += 1
        if cplx:
            ex = ex + 1j*float(Fr(out[k].split(' ')[1]))
            k += 1
        if flag == 'nan':
            if not np.isnan(got.real):
                bad.append((pos, 'nan expected', got))
        elif not abs(got - ex) <= 1e-13*scale:
            bad.append((pos, got, ex))
    ctx.cov['receiver_cases'] = len(reals)
    ctx.oblige('correspondence: fields.get_receiver(linear) == '
               'Src.receiverLinear (1e-13 of the field scale)',
               'correspondence', not bad, str(bad[:2]))
    return bad


def suite_nan(ctx):
    import emg3d
    from emg3d import fields
    rng = ctx.nprng('nan')
    grid = emg3d.TensorMesh([np.ones(6)*2.0, np.ones(5)*2.0, np.ones(7)*2.0],
                            (0, 0, 0))
    f = emg3d.Field(grid, frequency=1.0)
    f.field[:] = rng.standard_normal(f.field.size) + 1j
    h = emg3d.Field(grid, frequency=1.0, electric=False)
    h.field[:] = rng.standard_normal(h.field.size) + 1j
    ext = [12.0, 10.0, 14.0]
    bad = []
    n = 0
    for fld in (f, h):
        for t in range(300 if ctx.thorough else 120):
            pos = [float(rng.uniform(-3, e+3)) for e in ext]
            if t % 3 == 0:      # exactly one coordinate in an outermost cell
                pos = [float(rng.uniform(2.5, e-2.5)) for e in ext]
                d = int(rng.integers(0, 3))
                pos[d] = float(rng.choice([rng.uniform(0, 1.99),
                                           rng.uniform(ext[d]-1.99, ext[d])]))
            inside = all(2.0 <= p <= e-2.0 for p, e in zip(pos, ext))
            with warnings.catch_warnings():
                warnings.simplefilter('ignore')
                for method in ('linear', 'cubic'):
                    v = complex(fields.get_receiver(fld, (*pos, 20., 10.),
                                                    method=method))
                    if np.isnan(v.real) == inside:
                        bad.append((pos, method, v, fld.electric))
            n += 1
    for b in bad[:3]:
        ctx.violation('nan-policy',
                      f'receiver at {b[0]} ({b[1]}, '
                      f'{"electric" if b[3] else "magnetic"} field): got '
                      f'{b[2]}; receivers outside the grid or in its outermost '
                      'cells must give NaN, others a number',
                      {'position': b[0], 'method': b[1]})
    ctx.count(n=n)
    ctx.oblige('monitor: NaN exactly for receivers outside the second to '
               'second-last cell', 'monitor', not bad, str(bad[:2]))


def suite_ecf(ctx):
    from emg3d import fields
    rng = ctx.nprng('ecf')
    ecf = exact_fn(fields, '_edge_curl_factor', deps=())
    lines, exp = [], []
    for t in range(20 if ctx.thorough else 8):
        shp = tuple(int(x) for x in rng.integers(1, 5, 3))
        nx, ny, nz = shp
        h = [qarr((n,), rng, positive=True) for n in shp]
        zeta = qarr(shp, rng, bool(t % 2))
        sx, sy, sz = c02.shapes_of(*shp)
        e = [qarr(s, rng, True) for s in (sx, sy, sz)]
        m = [np.full(s, Q(0), dtype=object) for s in
             ((nx+1, ny, nz), (nx, ny+1, nz), (nx, ny, nz+1))]
        try:
            ecf(*m, *e, *h, zeta)
            exp.append(' | '.join(line(a) for a in m))
        except Exception as ex:
            exp.append(f'raised {ex}')
        lines.append(f"ecf {nx} {ny} {nz} | " + ' | '.join(
            line(a) for a in [*h, zeta, *e]))
        ctx.count(key=('ecf', shp))
    out = common.run_driver(lines, jobs=4)
    bad = [(l[:60], o[:80], e[:80]) for l, o, e in zip(lines, out, exp)
           if o != e]
    ctx.oblige('correspondence: fields._edge_curl_factor.py_func (exact) == '
               'Src.edgeCurlFactor', 'correspondence', not bad, str(bad[:1]))
    return bad


def suite_magnetic(ctx):
    """Magnetic receiver == <magnetic point vector, e> (mu_r = 1), frequency
    and Laplace domain, on the real functions."""
    import emg3d
    from emg3d import fields
    rng = ctx.nprng('mag')
    bad = []
    for t in range(24 if ctx.thorough else 10):
        hs = [rng.uniform(0.8, 2.5, int(rng.integers(4, 7))) for _ in range(3)]
        grid = emg3d.TensorMesh(hs, (0, 0, 0))
        model = emg3d.Model(grid, rng.uniform(0.3, 3, grid.shape_cells))
        freq = float(rng.choice([1.0, 7.5, -1.0, -4.0]))
        e = emg3d.Field(grid, frequency=freq)
        e.field[:] = rng.standard_normal(e.field.size)
        if freq > 0:
            e.field[:] = e.field + 1j*rng.standard_normal(e.field.size)
        # PEC
        e.fx[:, 0, :] = e.fx[:, -1, :] = 0
        e.fx[:, :, 0] = e.fx[:, :, -1] = 0
        e.fy[0] = e.fy[-1] = 0
        e.fy[:, :, 0] = e.fy[:, :, -1] = 0
        e.fz[0] = e.fz[-1] = 0
        e.fz[:, 0] = e.fz[:, -1] = 0
        pos = [float(rng.uniform(n[1]+0.05, n[-2]-0.05)) for n in
               (grid.nodes_x, grid.nodes_y, grid.nodes_z)]
        az, el = float(rng.uniform(-180, 180)), float(rng.uniform(-90, 90))
        with warnings.catch_warnings():
            warnings.simplefilter('ignore')
            hf = fields.get_magnetic_field(model, e)
            got = complex(fields.get_receiver(hf, (*pos, az, el),
                                              method='linear'))
            pv = fields._point_vector_magnetic(grid, (*pos, az, el), freq)
        ip = complex(np.sum(pv.field*e.field))
        # Faraday check of H itself on one interior face
        s = 2j*np.pi*freq if freq > 0 else -freq
        from scipy.constants import mu_0
        i, j, k = 2, 1, 1
        curlx = ((e.fz[i, j+1, k]-e.fz[i, j, k])/hs[1][j] -
                 (e.fy[i, j, k+1]-e.fy[i, j, k])/hs[2][k])
        if abs(hf.fx[i, j, k] - curlx/(s*mu_0)) > 1e-10*abs(curlx/(s*mu_0)) + 1e-300:
            bad.append(('faraday', freq))
            ctx.violation('magnetic-field-not-faraday',
                          f'H_x differs from curl(E)/(s mu_0) for frequency '
                          f'{freq} ({hf.fx[i, j, k]} vs {curlx/(s*mu_0)})',
                          {'frequency': freq})
        if not abs(got - ip) <= 1e-10*abs(ip) + 1e-300:
            bad.append(('transpose', freq, got, ip))
            ctx.violation(
                'magnetic-receiver-not-transpose',
                f'magnetic receiver at {(*pos, az, el)}, frequency {freq}: '
                f'{got}; <magnetic point vector, e> = {ip}',
                {'position': (*pos, az, el), 'frequency': freq})
        ctx.count(key=('mag', t, freq))
    ctx.oblige('monitor: magnetic receiver == <magnetic point vector, e> '
               '(mu_r = 1; f>0 and f<0); H = curl E / (s mu_0)', 'monitor',
               not bad, str(bad[:2]))


def suite_recip(ctx):
    import emg3d
    rng = ctx.nprng('recip')
    hx = np.array([150., 120., 100., 100., 100., 100., 120., 150.])
    grid = emg3d.TensorMesh([hx, hx, hx], (-470, -470, -470))
    bad = []
    for t in range(6 if ctx.thorough else 2):
        model = emg3d.Model(grid, rng.uniform(0.3, 3, grid.shape_cells),
                            property_z=rng.uniform(0.3, 3, grid.shape_cells))
        p1 = (*rng.uniform(-150, 150, 3), float(rng.uniform(-180, 180)),
              float(rng.uniform(-60, 60)))
        p2 = (*rng.uniform(-150, 150, 3), float(rng.uniform(-180, 180)),
              float(rng.uniform(-60, 60)))
        for kind in ('electric', 'magnetic'):
            Tx = emg3d.TxElectricPoint if kind == 'electric' \
                else emg3d.TxMagneticPoint
            vals = []
            with warnings.catch_warnings():
                warnings.simplefilter('ignore')
                for a, b in ((p1, p2), (p2, p1)):
                    sf = emg3d.get_source_field(grid, Tx(a), 1.0)
                    ef = emg3d.solve(model, sf, plain=True, tol=1e-10, verb=-1,
                                     maxit=80)
                    fld = ef if kind == 'electric' else \
                        emg3d.get_magnetic_field(model, ef)
                    vals.append(complex(emg3d.fields.get_receiver(fld, b,
                                                           method='linear')))
            if not abs(vals[0]-vals[1]) <= 1e-6*abs(vals[0]):
                bad.append((kind, vals))
                ctx.violation('reciprocity',
                              f'{kind} source/receiver exchange: {vals[0]} vs '
                              f'{vals[1]}', {'kind': kind, 'p1': p1, 'p2': p2})
            ctx.count(key=('recip', t, kind))
    ctx.oblige('monitor: reciprocity (electric-electric, magnetic-magnetic) '
               'to 1e-6 on real solves', 'monitor', not bad, str(bad[:1]))


def run(ctx):
    ctx.lean('Emg3dVerif.Props.C09', THEOREMS)
    ctx.assumptions += [
        "SciPy's RegularGridInterpolator (interval search + linear weights) is "
        'modelled (ssIdx/w1s) and compared in floating point',
        'discretize interpolation matrices / edge_curl enter through '
        '_point_vector_magnetic and are compared on the real code',
        'cubic interpolation is not adjoint (documented), not covered',
    ]
    b1 = suite_recv(ctx)
    b2 = suite_ecf(ctx)
    suite_nan(ctx)
    suite_magnetic(ctx)
    suite_recip(ctx)
    if (b1 or b2) and not ctx.violations:
        ctx.violation('model-correspondence-broken',
                      f'receiver/curl-factor differ from the model '
                      f'({str((b1 or b2)[:1])[:300]}); transpose identity, NaN '
                      'policy and reciprocity hold', {}, found_input=False)


def replay(ctx, rp):
    suite_recv(ctx)
    suite_nan(ctx)
    suite_magnetic(ctx)
    for v in ctx.violations:
        print('replay:', v['sig'], v['what'][:200])
    return 1 if ctx.violations else 0
