#!/usr/bin/env python3
"""Measure the reference convergence factors of C06 on the tree as it is and
write harness/c06_baseline.json (run once on the pinned tree; committed)."""
import os, sys, json, subprocess
sys.path.insert(0, os.path.join(os.path.dirname(__file__), '..'))
from harness import c06
from concurrent.futures import ProcessPoolExecutor

def measure_extra():
    """Only the further media (c06.extra_configs): merged into the baseline."""
    jobs = [(lap, med, cyc, nu, shp) for (lap, med, cyc, nu) in
            c06.extra_configs() for shp in ((8, 8, 8), (16, 16, 16),
                                            (32, 32, 32), (16, 24, 40))]
    with ProcessPoolExecutor(max_workers=12) as ex:
        res = list(ex.map(c06._one, jobs, chunksize=1))
    base = json.load(open(c06.BASELINE))
    for (lap, tri, cyc, nu, shp), (g, ncyc, errs) in res:
        base['factors'].setdefault(c06.key_of(lap, tri, cyc, nu), {})[
            'x'.join(map(str, shp))] = round(float(g), 4)
    head = subprocess.run(['git', '-C', '/repo', 'rev-parse', '--short', 'HEAD'],
                          capture_output=True, text=True).stdout.strip()
    base['extra_media_measured_on'] = f'/repo {head}'
    json.dump(base, open(c06.BASELINE, 'w'), indent=1, sort_keys=True)
    print(len(jobs), 'measurements merged into', c06.BASELINE)


if __name__ == '__main__':
    if sys.argv[1:] == ['extra']:
        measure_extra()
        sys.exit(0)
    jobs = []
    for (lap, tri, cyc, nu) in c06.all_configs():
        for n in (8, 16, 32, 64):
            jobs.append((lap, tri, cyc, nu, (n, n, n)))
        for shp in c06.NONCUBIC:
            jobs.append((lap, tri, cyc, nu, shp))
    jobs.append((False, False, 'F', 2, (128, 128, 128)))
    with ProcessPoolExecutor(max_workers=12) as ex:
        res = list(ex.map(c06._one, jobs, chunksize=1))
    out = {}
    for (lap, tri, cyc, nu, shp), (g, ncyc, errs) in res:
        out.setdefault(c06.key_of(lap, tri, cyc, nu), {})[
            'x'.join(map(str, shp))] = round(float(g), 4)
    head = subprocess.run(['git', '-C', '/repo', 'rev-parse', '--short', 'HEAD'],
                          capture_output=True, text=True).stdout.strip()
    json.dump({'measured_on': f'/repo {head} (pinned tree plus the fix: commits)',
               'what': 'geometric mean of the residual reduction per cycle over '
                       'the last five cycles above 1e-11 (harness/c06.py: measure)',
               'factors': out}, open(c06.BASELINE, 'w'), indent=1, sort_keys=True)
    print(len(jobs), 'measurements written to', c06.BASELINE)
