#!/usr/bin/env python3
"""Regenerate MANIFEST.json from the table below (run after (un)claiming a property)."""
import json, os
HERE = os.path.dirname(os.path.dirname(os.path.abspath(__file__)))
BASE = ("cd /repo && /venv/bin/python -m pytest -ra -q -p no:cacheprovider "
        "--timeout=900 --continue-on-collection-errors")
TB = ("Lean 4.33 kernel + Mathlib v4.33; axioms per theorem within {propext, Classical.choice, "
      "Quot.sound}, audited with #print axioms on every run; no native_decide/bv_decide/sorry. "
      "The theorems are about hand-written Lean models; the models are tied to /repo's current "
      "source by the correspondence suites named in the evidence file (harness/%s.py). ")

CLAIMED = {
 'C01': dict(
   text="Proof (Lean 4) about the control model SolveM.solve of solve()/multigrid() level-0 "
        "loop/krylov()/_terminate(): for EVERY sequence of residual norms and Krylov events (i.e. "
        "whatever the numerics does): exit 0 <=> message CONVERGED on all paths; plain multigrid "
        "success implies the reported abs_error is the residual norm of the last field and is "
        "below tol*|s| (IEEE comparison); a finished run above the tolerance is reported as "
        "DIVERGED/STAGNATED/MAX-ITERATION with exit 1; the loop stops within maxit cycles; "
        "already-good supplied field => nothing run; zero source => zero field, error 0; Krylov: "
        "success <=> SciPy info 0 without abort for EVERY info (a break-down, info < 0, is always "
        "a failure: krylov_breakdown_is_failure; the hypothesis info >= 0 this theorem used to "
        "carry hid defect f9ccc85, found by running the code at the excluded point), abs_error is "
        "the residual of the returned field, an abort is always a failure. Tie to code: recorded residual norms / SciPy events of real "
        "solves over the configuration product drive the model; exit, message, it_mg, it_ssl, "
        "abs_error must agree. Clause PEC, plain multigrid: proved on the whole-cycle model "
        "(Emg.mgRun_frame / mgRun_pec: for every configuration, grid, model, source and start "
        "field the call returns the same level and never writes an edge outside the interior, so "
        "a PEC start field gives a PEC result; every coarse field is PEC). Numeric half (partial, "
        "monitored not proved): residual of the returned/in-place field recomputed with an "
        "independent sparse FIT assembly (cross-checked against the Lean spec), PEC on the Krylov "
        "path, dtype, in-place semantics.",
   design='§4 C01',
   note=TB % 'c01' + "Modelled not verified: what a cycle / a Krylov step does to the field "
        "(oracle), SciPy's solvers (event model), floating-point norm. Known finding: Krylov with "
        "maxit=0 reports success (KNOWN_FINDINGS.txt).",
   technique='Lean 4 invariant over the cycle loop / event fold + trace correspondence; independent residual oracle'),
 'C09': dict(
   text="Proof (Lean 4, ordered field): SciPy's interval rule (searchsorted) and emg3d's "
        "point-source rule both bracket the coordinate; two bracketing intervals give the same "
        "linear interpolant (continuity), so the 1-D weight functionals coincide for every "
        "coordinate incl. nodes; lifted to 3-D: for every position inside the second to "
        "second-last cell, every orientation and every field, the linear-interpolation receiver "
        "equals <unit point-source vector, field>; receiver linear; NaN exactly outside that "
        "region; discrete Faraday law of the edge-curl factor (mu_r = 1); magnetic receivers via "
        "curl^T adjointness (C02); reciprocity <p_r, u> = <p_s, v> from the symmetry of the "
        "operator. Tie to code: get_receiver(linear) vs model on staggered stretched grids "
        "(positions on nodes/edges/faces/generic); transpose identity and magnetic transpose "
        "identity (f>0 and f<0) on the real functions; _edge_curl_factor executed exactly; NaN "
        "policy for electric/magnetic, linear/cubic; reciprocity on real solves.",
   design='§4 C09',
   note=TB % 'c09' + "Modelled not verified: scipy RegularGridInterpolator, discretize "
        "interpolation matrices and edge_curl (compared on the real code); cubic method excluded.",
   technique='Lean 4 interval-bracketing + continuity lemma lifted to 3-D tensor sums; float correspondence'),
 'C10': dict(
   text="Proof (Lean 4, ordered field / commutative ring): the 1-D adjoint-interpolation weights "
        "of a point source sum to one for every position (interior, extrapolating outer half cells, "
        "last interval), hence each Cartesian component of a point source sums to its unit "
        "direction; partition of unity of the cell edge weights; the clipped parametric lengths of "
        "the cells along a segment sum to one (1-D tiling lemma, also for empty overlaps); rotation "
        "factors form a unit vector; the square loop of a magnetic dipole is closed, planar, "
        "perpendicular to the dipole, of the stated area and right-handed; dipole electrode span; "
        "field scaling linear; and (Props/C10Dipole.lean) the full finite-dipole theorem "
        "dipole_moment: for every grid with strictly increasing nodes and every segment inside it "
        "that does not lie in an upper boundary face, each component of the coded dipole vector "
        "sums to p1 - p0 - via: edge sums = sum over contributing cells of weights x length, the "
        "code's guard accepts exactly the cells with a non-empty parametric intersection, the cell "
        "box of each direction covers the segment, three-dimensional tiling identity. "
        "Tie to code: _point_vector and "
        "_dipole_vector (dipoles, wires with 2..8 electrodes, positions on nodes/edges/faces and in "
        "outer half cells) vs the exact model (T-float, dyadic coordinates); get_source_field for "
        "every source class/input form/f>0,f<0,None with repeated calls; conversions.",
   design='§4 C10',
   note=TB % 'c10' + "Modelled not verified: sqrt and trigonometric functions (routed / compared "
        "in floats). Known finding: segment inside an upper boundary face gives a NaN field "
        "(hypothesis DirOK.notTop of dipole_moment).",
   technique='Lean 4 sum/partition lemmas + ring identities; float correspondence with exact model; moment/support oracle'),
 'C11': dict(
   text="Proof (Lean 4) about the collection model PMap: for EVERY completion order of the tasks "
        "(hence any worker count and scheduling) the order-preserving collector returns "
        "inputs.map f (slot i = result of task i) and two runs agree; an as_completed-style "
        "collector provably would not; the task list is the source-frequency product without "
        "repetition and every slot receives the result of its own task; exchange-file names are "
        "injective for names without '_' (collision with '_' proved and recorded as known finding). "
        "Tie to code: real process_map under adversarial task latencies, 1..16 workers, with and "
        "without tqdm, observed completion orders fed to the model; real simulations (tasks of "
        "different cost) sequential vs 2/4(/8/16) workers vs file based: synthetic data, fields, "
        "misfit, gradient, J v bit-identical; slots checked against their own task; file names and "
        "task list vs model.",
   design='§4 C11',
   note=TB % 'c11' + "Modelled not verified: ProcessPoolExecutor.map / tqdm process_map "
        "(order-preserving map: assumption, monitored); OS scheduling (orders forced and observed); "
        "pickling fidelity (C17).",
   technique='Lean 4 permutation theorem on the collector + slot lemma; latency-forced trace correspondence; bit-identity across execution settings'),
 'C12': dict(
   text="Proof (Lean 4) about the cache model SimM of Simulation (stored fields and synthetic data "
        "per source-frequency pair, computed flag, cached misfit/gradient, stored residual incl. the "
        "jtvec vector, b-fields, shared tolerance entry): an invariant (every stored quantity "
        "belongs to the current model version) holds for new simulations and is preserved by every "
        "public operation {compute, misfit, gradient, jvec, jtvec, get_efield, get_hfield, "
        "clean(3), copy/to_dict/to_file(4), model update + clean}; hence for EVERY history (no "
        "length bound) whatever an operation returns is what a fresh simulation of the current "
        "model returns; 'computed' implies all pairs current; jtvec leaves no trace; tolerance "
        "restored in every serialised form. Tie to code: random operation sequences on real "
        "simulations (in memory and file based, copies via copy/dict/h5/npz/json), every returned "
        "value and passive observable identified BIT FOR BIT with reference values of fresh "
        "simulations per model version and compared with the model after every step; worlds with "
        "the model grid and with a given computational grid; model replaced or edited in place.",
   design='§4 C12',
   note=TB % 'c12' + "Modelled not verified: the numerics of a solve (a value tagged with a model "
        "version); determinism of identical computations (monitored). gridding='same' only "
        "(estimated gridding options legitimately depend on the model at construction).",
   technique='Lean 4 invariant by induction over operation histories + bit-exact trace correspondence against fresh simulations'),
 'C13': dict(
   text="Proof (Lean 4) about the model NoiseM of Survey's noise bookkeeping and of the data "
        "misfit: std^2 = nf^2 + (re |d|)^2, explicit value wins, none if nothing is set; add_noise "
        "(any cuts, target, noise) never changes noise floor / relative error / explicit std and "
        "leaves 'observed' alone when adding elsewhere; a setter changes only its parameter and "
        "rejects non-positive values; a selection is exactly the chosen sub-cube (data, explicit "
        "std and array-valued parameters alike, in the requested order), scalar parameters "
        "unchanged; the misfit is 0.5 sum |r|^2/std^2 over finite entries and invariant under any "
        "permutation of the sources (List.Perm). Tie to code: random operation sequences on real "
        "Survey objects (5 parameter forms, add_noise variants, permuted selections, remove_empty, "
        "copy, dict round trip), every observable compared after every step; Simulation.misfit on "
        "layered simulations incl. histories changing the NaN pattern.",
   design='§4 C13',
   note=TB % 'c13' + "Modelled not verified: xarray selection/copy semantics (compared), sqrt "
        "rounding (std compared as squares within 8 ulp), random_noise (stubbed: noise is data).",
   technique='Lean 4 frame/sub-cube/permutation theorems on a state-machine model + operation-sequence trace correspondence'),
 'C15': dict(
   text="Proof (Lean 4, arbitrary ordered field; log mode over the reals): the averaging weights "
        "are overlap lengths of output cells with (nearest-value extended) input cells; they are "
        "non-negative, every row sums to the output cell width (clamp telescoping lemma), every "
        "column to the input cell width when both grids cover the same range; hence the result "
        "stays in the range of the input values, constants are reproduced, the integral is "
        "conserved, equal grids give the identity, cells outside take the nearest value, the map "
        "is linear, the 3-D map is the tensor product of the 1-D maps; in log mode resistivity and "
        "conductivity inputs give reciprocal results. Tie to code: interp_volume_average and "
        "_volume_average_weights executed exactly on rationals vs the closed form for nested / "
        "overlapping / shifted / coarser / finer / outside grid pairs; maps.interpolate(volume, "
        "log), Model.interpolate_to_grid (all properties, nearly homogeneous ones) and the adjoint "
        "used by the gradient (pairing <Pv,w> = <v,P^T w>) in floats.",
   design='§4 C15',
   note=TB % 'c15' + "Modelled not verified: discretize.utils.volume_average (checked through the "
        "adjoint pairing), log10/10** rounding.",
   technique='Lean 4 telescoping/overlap lemmas over an ordered field; exact-rational correspondence'),
 'C14': dict(
   text="Proof (Lean 4, over the reals, Mathlib analysis): the six mappings are defined once, "
        "generically in the number type and its elementary functions (MapsM.forward / backward / "
        "chain); instantiated at R: backward(forward s) = s for every s > 0, forward(backward x) "
        "= x, backward x > 0, HasDerivAt (backward m) (chain m x) x for all six maps (the factor of "
        "derivative_chain IS the derivative), hence the solver coefficient eta computed from any "
        "parametrisation equals the one from the conductivity; decision model of the validation: "
        "accepted iff every value is positive and finite on the conductivity scale, which error "
        "otherwise, an uninitialised parameter cannot be set. Tie to code: the same generic "
        "definitions instantiated at Float are executed by the driver against every Map* class "
        "over twelve decades (<= 8 ulp), factor vs finite differences of the class' own backward; "
        "VolumeModel eta/zeta of all six parametrisations vs Lean etaCoef/zetaCoef evaluated "
        "exactly (4 cases x mu_r x epsilon_r x frequency/Laplace); Model constructor/setters on "
        "float-class representatives vs the decision model; fields, data, misfit identical and "
        "gradient_m = gradient_sigma x Lean chain factor on real solves; estimate_gridding_opts, "
        "interpolate_to_grid and extract_1d give mapping-independent physical models.",
   design='§4 C14',
   note=TB % 'c14' + "Modelled not verified: floating-point log/exp/pow (theorems are over R; "
        "float round trips hold to the stated ulp bounds; the Lean runtime's libm is the executable "
        "reference).",
   technique='Lean 4 real-analysis theorems (inverse pairs, HasDerivAt) on generic map definitions also executed at Float; float-class decision table; float correspondence'),
 'C16': dict(
   text="Proof (Lean 4, arbitrary linearly ordered field, all cell numbers / widths / domains / "
        "candidate lists): model Grd of _stretch, the triple search of origin_and_widths, vector "
        "cut, centre part, computational domain, _seasurface (brentq roots as inputs) and "
        "good_mg_cell_nr. Theorems: a successful _stretch uses nx - remain cells (all nx with "
        "use_up), reaches the domain on both sides, keeps origin + sum(widths) = end, all widths "
        "positive, neighbouring widths within the factor beta whenever the centre part is and "
        "1 <= alpha <= beta, and preserves every node of the centre part; hence a grid found by the "
        "search has a permitted cell number, covers survey and computational domain, is bounded by "
        "beta, keeps the provided nodes / centre / sea surface as nodes (search_post, oaw_post); the "
        "search returns nothing iff no (nx, sa, ca) triple works (fails loudly); the vector cut "
        "keeps every provided node inside the survey domain; computational-domain formulas for "
        "both lambda_from_center branches (two wavelengths there and back, max_buffer cap); sea "
        "surface is the upper node after the shift and after adoption of an exact root; permitted "
        "cell numbers are exactly p*2^k. Tie to code: _stretch source executed on exact rationals == "
        "model; origin_and_widths with recorded _stretch / brentq calls == model (domain, cut "
        "vector, centre part, computational domain, nx, sa, ca, widths), sampled recorded calls == "
        "model per call; construct_mesh == per-direction calls for every documented format; "
        "good_mg_cell_nr on 224 triples; postconditions evaluated directly on every returned mesh.",
   design='§4 C16',
   note=TB % 'c16' + "Modelled not verified: scipy.optimize.brentq (root property is hypothesis "
        "RootsExact), np.linspace / sqrt / float comparisons (cases within 1e-9 of a tie are "
        "counted and skipped in the model comparison, never in the postcondition monitors); "
        "estimate_gridding_opts is covered only through C14's mapping-invariance monitor.",
   technique='Lean 4 list/ordered-field theorems (induction over widths, candidates, cell numbers) + exact-rational and recorded-call correspondence'),
 'C17': dict(
   text="Proof (Lean 4, core only, structural induction over arbitrarily nested ordered "
        "dictionaries with instances of registered classes inside): model IoT of _dict_serialize, "
        "_nonetype_to_none, _dict_deserialize, _dict_flatten / _dict_unflatten (keys joined and "
        "split at '>'), _dict_dearray_decomp / _dict_array_comp (structured key flags) and "
        "save / load / convert with the back ends as identities. Theorems: de-serialise o restore-"
        "None o serialise is the identity on well-formed values (no 'NoneType' string, user "
        "dictionaries do not carry a registered __class__), hence load(save x) = x for HDF5; "
        "array_comp inverts dearray_decomp given the leaf codec does, hence JSON; splitting a "
        "joined path returns the path and un-flatten(flatten d) = d *with key order* for '>'-free, "
        "unique keys and non-empty nested dictionaries, hence NumPy; an empty nested dictionary is "
        "lost in .npz (negation proved with a witness); convert between any two formats preserves "
        "the content. String level of the JSON key flags (Model/JsonKey, Props/JsonKey, List Char "
        "models of `in`, rsplit(sep, 1), replace(sep, '')): unflag_flag - every key containing "
        "neither marker (keys ending with underscores included: the defect repaired in 984e1da) and "
        "every flag combination is recovered exactly; the hypothesis is shown to be needed. Tie to "
        "code: the six tree functions on random trees (depth <= 4, instances "
        "of all 12 registered classes inside) vs the model; from_dict(to_dict(x)) = x per class; "
        "real files: save -> load in the three formats and convert for the six pairs vs the "
        "model's prediction, to_file / from_file, Simulation what = computed/results/all/plain "
        "and absence of state leaking from to_file; the real key codec on ~1000 adversarial keys "
        "against JKey.flagKey / unflagKey. Known findings: empty nested dictionary in .npz, shape of "
        "an empty array with a leading zero axis in .json.",
   design='§4 C17',
   note=TB % 'c17' + "Modelled not verified: h5py / np.savez / json (identities on what they are "
        "given; exercised on real files), leaf canonicalisation (scalar "
        "kinds; arrays by dtype, shape, bytes). The root group of an .h5 file is listed by name: "
        "the top level is compared in sorted order (Python dict equality ignores order).",
   technique='Lean 4 structural induction over a mutual Tree/Forest model (ordered dictionaries); tree-function and real-file correspondence'),
 'C18': dict(
   text="Proof (Lean 4, core only): model Cli of the configuration parser - per section the "
        "accepted keys with parser type and destination, the documented option list, the API "
        "keyword tables, precedence terminal > configuration file > default, file-name completion, "
        "cache = load & save, receiver_interpolation = linear default for the gradient, noise "
        "options, rejection of unknown keys and unknown sections. Theorems: every documented "
        "option is accepted and every accepted option reaches a keyword the API knows (decided "
        "over the complete tables); for every input an unknown key in any section and any unknown "
        "section make the parse fail; a command-line file name / --path / -n / -l wins over the "
        "configuration file, which wins over the default; cache overrules load and save. Tie to "
        "code: the option list is re-extracted from docs/manual/cli.rst and the API keywords with "
        "inspect / behavioural probes on every run; main(args) with argparse + parse_config_file "
        "on generated configurations (each key alone, random combinations, conflicts, unknown "
        "keys / sections) vs the model with independently re-parsed typed values; real runs of "
        "the entry point (forward / misfit / gradient x 3 formats x noise / data / dry-run / "
        "save-load / cache-clean) vs the API calls assembled from the model's parse result.",
   design='§4 C18',
   note=TB % 'c18' + "Modelled not verified: configparser / argparse (deliver the entries the model "
        "is given), pathlib suffix rules (Cli.complete compared on generated names), typed value "
        "conversion (re-implemented in the harness).",
   technique='Lean 4 decision tables decided by `decide` + universally quantified rejection / precedence theorems; table re-extraction, parser and end-to-end correspondence'),
 'C19': dict(
   text="Proof (Lean 4; ordered field, reals for the log average): model Lay of extract_1d's "
        "interpolation matrix (cell areas in the index rectangle, times the ellipse mask for "
        "'cylinder', normalised; one cell for 'midpoint'), the per-layer (log) average, the merge "
        "of equal neighbours, the slot routing by the finite mask, the finite-difference gradient. "
        "Theorems: weights are non-negative and sum to one (any mask, any rectangle, midpoint too); "
        "hence every method / ellipse reproduces a laterally invariant layer, linearly and through "
        "10^(sum w log10 v); merging keeps the layering (every layer has the values of the first "
        "layer of its run, which is kept; kept layers really differ); a slot is written iff the "
        "observed datum is finite and the reference modeller is called with exactly the finite "
        "frequencies in order; the layered gradient summed over a layer is the difference quotient "
        "of that layer. Tie to code: extract_1d(return_imat=True) vs Lay.imat with exact widths and "
        "the real ellipse mask as input, layer values, merge vs Lay.mergeIdx, _get_points; "
        "Simulation(layered=True) with empymod.bipole wrapped: recorded calls vs the model's "
        "record, data vs a direct reference call for all five methods, NaN pattern; gradient "
        "layer sums vs independent difference quotients of the misfit (iso / VTI, horizontal / "
        "vertical, three mappings, merge on and off).",
   design='§4 C19',
   note=TB % 'c19' + "Modelled not verified: empymod.bipole (uninterpreted reference), the mask of "
        "maps.ellipse_indices (input of the model), truncation error of the 0.01 % finite "
        "difference.",
   technique='Lean 4 sums over an ordered field + real log/exp for the log average, list induction for merge and slots; float / recorded-call correspondence'),
 'C20': dict(
   text="Proof (Lean 4, any linear order of frequencies, any value type): model Fou of the "
        "Fourier bookkeeping (coarse set for the three option cases, the index groups, the data "
        "flow of interpolate with spline and PCHIP as parameters) and of the option state machine. "
        "Theorems: for fmin <= fmax every frequency is in exactly one of below / in band / above "
        "(and the hypothesis is necessary); computed frequencies lie in the band and in the coarse "
        "set; without options computed = required in-band frequencies; every_x_freq gives a "
        "sub-sequence; value written at each required position (closed form); zero above the "
        "band; data are passed through unchanged, in order, exactly when coarse = required (then "
        "computed and required in-band frequencies coincide); in the spline branch coincident "
        "frequencies keep their datum if the spline interpolates its nodes; below the band the "
        "value is the PCHIP interpolant through the computed data plus the anchor, whose real part "
        "stays at the lowest computed value if the interpolant is constant on a flat first "
        "interval; input_freq and every_x_freq are never both in effect after any sequence of "
        "constructor / setter operations. Tie to code: Fourier attributes and the recorded SciPy "
        "interpolator calls vs the model for generated times / bands / signals / transforms / "
        "options; setter sequences; interpolate vs independent SciPy calls and the shape monitors "
        "on random spectra; freq2time with empymod.model.tem wrapped vs a direct call.",
   design='§4 C20',
   note=TB % 'c20' + "Modelled not verified: empymod.utils.check_time (supplies freq_required), "
        "empymod.model.tem (reference transform), SciPy's spline and PCHIP (hypotheses: interpolate "
        "their nodes; constant on a flat first interval; monotone on monotone data - monitored on "
        "every generated spectrum). Standard DLF (pts_per_dec = 0) is outside the property's "
        "quantifier (2-D frequency array).",
   technique='Lean 4 order-theoretic case analysis + list lemmas over a generic linear order; attribute / recorded-call correspondence'),
 'C07': dict(
   text="Proof (Lean 4 + Mathlib, matrices over C with arbitrary finite index types): for the "
        "system A(sigma) = A0 + diag(c G sigma), e = A^-1 s, d = P e, misfit 1/2 sum w |d - obs|^2 "
        "(weight 0 for missing data): resolvent identity, expansion of the misfit, and "
        "gradient_is_derivative: phi(sigma + t v) - phi(sigma) = t <g, v> + t^2 rho(t) with g the "
        "adjoint pipeline applied to the weighted residual and rho written out (regular at 0) - so "
        "central differences converge at second order to <g, v>; given only a symmetric inverse "
        "system matrix (C02). Glue (any field): distributing edge values to cells "
        "(interp_edges_to_vol_averages) is the transpose of the cell -> edge averaging; the "
        "anisotropy collection of the raw gradient is the transpose of the stacking used by jvec "
        "and has the case's number of components. Tie to code: interp_edges_to_vol_averages "
        "source on exact rationals vs Grad.toVol; on real simulations (stretched grids, 6 mappings, "
        "4 cases, mixed / relative receivers, missing data, scalar / array noise, explicit std): "
        "weights, residual, misfit; adjoint source field = P^T conj(w r) by pairing through "
        "get_receiver; gradient = model pipeline applied to the stored forward and back-propagated "
        "fields; central differences at two steps (observed order 2.0).",
   design='§4 C07',
   note=TB % 'c07' + "Modelled not verified: the solves (exact in the theorem; 1e-11 in the monitors, "
        "non-converged worlds skipped and counted), symmetry of A and P / point-source transposes "
        "(proved in C02 / C09, hypotheses here). Laplace-domain gradients are not supported by "
        "the code (dtype error) and outside the property.",
   technique='Lean 4 / Mathlib matrix algebra over C (resolvent identity, adjoint pairing) + sum-swap lemmas for the glue; exact, pipeline and finite-difference correspondence'),
 'C08': dict(
   text="Proof (Lean 4 + Mathlib): jtvec_adjoint - Re<w, J v> = <J^T w, v> for every real model "
        "vector and complex data vector, any receiver matrix, forward field and averaging matrix, "
        "given a symmetric inverse system matrix (inv_symm: the inverse of a symmetric matrix is "
        "symmetric); jvec_comp_grid / jtvec_comp_grid - with the vector volume-averaged to a "
        "computational grid (V) and the gradient brought back with V^T the pair is still exactly "
        "adjoint (every gridding mode); jvec_is_derivative - d(sigma + t v) - d(sigma) = t J v + "
        "t^2 (remainder written out). Tie to code: the source field jvec hands to the solver vs "
        "-s mu0 (cell -> edge average of the chain-scaled, case-stacked vector) e (checks "
        "discretize's edge inner-product derivative), data slots, jtvec(w r) = gradient, repeated "
        "calls; adjointness on the real code for gridding same / single / frequency / source / "
        "both (computational grids with the model's cell count but other nodes), in memory and "
        "file based, errors ~1e-12; central differences of the data vs J v.",
   design='§4 C08',
   note=TB % 'c08' + "Modelled not verified: as C07; volume averaging and "
        "discretize.volume_average(...).T as mutual transposes (C15).",
   technique='Lean 4 / Mathlib matrix algebra over C; recorded-call and adjointness correspondence'),
 'C02': dict(
   text="Proof (Lean 4, over an arbitrary field K, all grid sizes/widths/coefficients/fields): the "
        "model Emg.amat of core.amat_x equals on every interior edge the assembled operator "
        "curl^T M_face(V/mu_r) curl - M_edge(eta) (two-cell face / four-cell edge averaging, "
        "direction-dependent eta); near-boundary entries carry only the sigma term, far-boundary "
        "entries are never written; curl(grad)=0 so the curl-curl part annihilates gradients; "
        "curl^T is the transpose of curl on PEC fields (3-D summation by parts), hence the FIT "
        "operator and the kernel are complex-symmetric; linearity; eta/zeta formulas. Tie to code: "
        "amat_x.py_func executed in exact Gaussian-rational arithmetic equals the model entry by "
        "entry on all shapes 1..4(5) per direction; real kernel vs Lean FIT spec on PEC fields; "
        "compiled kernel vs its source within a computed rounding bound; VolumeModel vs the "
        "documented coefficient formulas (all cases, mu_r, epsilon_r, f>0, f<0); residual() wrapper.",
   design='§4 C02',
   note=TB % 'c02' + "Modelled not verified: IEEE rounding and numba code generation (bounded "
        "from outside by the jit-vs-source suite); property maps are C14's subject.",
   technique='Lean 4 ring identities + summation by parts over a generic field; exact-rational correspondence with the kernel source'),
 'C03': dict(
   text="Proof (Lean 4, arbitrary field K, all grid sizes): the smoothers are modelled as block "
        "Gauss-Seidel relaxation of the operator of C02 (node blocks of six edges; x/y/z line "
        "blocks; forward/backward ordering; nu sweeps; smoothing() dispatch with two-cell "
        "adaptation). Theorems: the equations of the block relaxed last hold exactly afterwards; a "
        "field solving the system is a fixed point; the result is linear in (field, source); only "
        "interior edges are ever written; no line kernel is selected along a two-cell direction; "
        "the pivot-free LDL^T solver returns the exact solution of its banded symmetric system for "
        "every n (induction), given non-zero pivots. Tie to code: the kernels' Python source run on "
        "exact Gaussian rationals equals the model entry by entry (the model builds each block "
        "system from the operator, not from the kernels' coefficients); core.solve vs model; "
        "compiled kernels vs source; property oracle on the real code. Beyond the smoothers: the "
        "complete multigrid call is modelled (Cycle.lean: interpreter of the C05 event trace over "
        "the operator models of C02-C04) and proved to return an exact solution unchanged for "
        "EVERY trace (runTrace_fixed / mgRun_fixed); the precondition 'block systems non-singular' "
        "is proved for physical models over C (allInj_phys: real widths, zeta >= 0, eta in an open "
        "half-plane; closed under coarsening), with uniqueness of the discrete solution "
        "(solution_unique_phys). Tie: solver.multigrid (float64) vs the exact model on dyadic "
        "inputs (V/W/F, all patterns), exact solutions returned unchanged; Phys monitored on "
        "VolumeModel and solver.restriction output.",
   design='§4 C03',
   note=TB % 'c03' + "Hypothesis of fixed-point/linearity theorems: block systems non-singular "
        "(BlockInj; PROVED for physical models, allInj_phys) resp. non-zero pivots and success "
        "flags of the linearity theorems - witnessed per executed case "
        "by the model's success flag. Not covered: rounding-error growth without pivoting.",
   technique='Lean 4: block-relaxation refinement + LDL^T induction; exact-rational correspondence with kernel sources'),
 'C04': dict(
   text="Proof (Lean 4, arbitrary field / ordered field, all sizes, all seven coarsening "
        "patterns): restriction and prolongation are tensor products of 1-D operators; the 3-point "
        "restriction stencil is the transpose of linear interpolation and 'sum of two children' the "
        "transpose of piecewise-constant interpolation (induction), hence <restrict r, c> = "
        "<r, prolong c> for every residual r and every coarse PEC field c, per component; "
        "prolongation adds, never touches tangential boundary edges, its weights are >= 0 and sum to "
        "one; the coarse grid is every second node; coarse parameters are sums of children and "
        "conserve the total. Tie to code: core.restrict and restrict_weights executed exactly vs "
        "model; solver.restriction / prolongation / RegularGridProlongator / "
        "_restrict_model_parameters vs model in floats with a computed bound (all 4 anisotropy "
        "cases); R = P^T assembled from the real functions by basis enumeration.",
   design='§4 C04',
   note=TB % 'c04' + "Modelled not verified: NumPy searchsorted/fancy indexing inside "
        "RegularGridProlongator (compared in floating point).",
   technique='Lean 4: 1-D adjointness by induction lifted to 3-D tensor products; exact + float correspondence'),
 'C05': dict(
   text="Proof (Lean 4) about the control model MGH.mgTrace of multigrid(): descent invariant "
        "(only even directions >2 are halved, never the semicoarsening direction, the degenerate "
        "'halve z anyway' branch unreachable), every level >= 2 cells, recursion bottoms out at the "
        "announced coarsest grid, no line relaxation along two-cell directions, level order of "
        "V/W/F equals the documented recursive definitions with 1 / 2^(D-1) / D coarsest visits, "
        "directions advance once per cycle and cycmax follows the direction - for all shapes, "
        "depths, patterns, user limits (no bound). Tie to code: event trace of the real "
        "emg3d.solve (recursion entries, kernel calls, restrictions, prolongations, direction "
        "updates) must equal the model's trace; helper functions compared exhaustively.",
   design='§4 C05',
   note=TB % 'c05' + "Modelled not verified: numerics enter control flow only through "
        "_terminate (number of cycles is an oracle); kernels are no-ops for large-shape traces.",
   technique='Lean 4 theorems by induction over levels/fuel + event-trace correspondence with the real solver'),
 'C06': dict(
   text="PARTIAL. Proved (Lean 4, Props/C06.lean on top of Cycle.lean / Coercive.lean; all grids, "
        "all traces): the complete multigrid call - the interpreter of the C05 event trace over the "
        "operator models of C02-C04, tied to solver.multigrid by the exact cycle correspondence - "
        "is a consistent LINEAR stationary iteration: exact solutions are fixed points "
        "(mgRun_fixed_phys), the call is additive in (source, start field) for every trace "
        "(runTrace_add), hence the error after a cycle depends on the error before, the grid, the "
        "model and the cycle parameters only, not on the source (mg_error_propagation); block "
        "systems are non-singular and the discrete solution is unique for physical models. So the "
        "'reduction factor per cycle' the property speaks about is a well-defined quantity of "
        "(grid, model, cycle). Laplace domain (Props/SmoothEnergy.lean, any ordered field): the "
        "operator is symmetric positive semi-definite on PEC fields (energy_nonneg) and every block "
        "relaxation is an A-orthogonal projection of the error (relaxBlock_energy), so no call of "
        "solver.smoothing - any line-relaxation code, any number of sweeps, any grid - increases "
        "the energy norm of the error (smoothing_energy_le), on every level of the hierarchy "
        "(PhysR.reach); for strictly dissipative models (eta < 0) the form is positive definite and "
        "a sweep of any kernel with solved blocks STRICTLY reduces the energy norm of every "
        "non-zero error (Props/SmoothStrict.lean: energy_eq_zero, kernelBlocks_cover, "
        "smoothing_energy_lt) - the smoother alone is a strictly decreasing iteration; both "
        "observed on the jitted kernels by the suite `energy`. NOT proved, only MEASURED (obligation kind 'measured'; no theorem "
        "stands behind it): the value of that factor and its independence of the grid size - a "
        "quantitative statement of numerical analysis (h-independent spectral radius) that is out of "
        "reach of a machine-checked proof here. The measurement follows the property's own "
        "procedure: reference problems on uniform grids (8^3..64^3, thorough 128^3 and non-cubic "
        "2^a x 3*2^b x 5*2^c shapes; F/V/W; isotropic and triaxial 1:2:3; frequency and Laplace "
        "domain; 1..3 smoothing steps), thresholds 1.5x the factor at 16^3 and 1.5x the factors "
        "measured on the pinned tree (harness/c06_baseline.json), cycles to 1e-6 not growing.",
   design='§9.10',
   note=TB % 'c06' + "The decisive quantitative part of this property is a measurement, not a "
        "theorem (see text); the theorems are executed on the real solver.multigrid in float64 "
        "(fixed point, source-independent error propagation).",
   technique='Lean 4: linearity/consistency of the whole cycle by induction over the trace + measured convergence factors (labelled)'),
}

NA = {
}
NOT_YET = "check not built yet in this framework (planned, see DESIGN.md §4)"

def main():
    ids = [json.loads(l)['id'] for l in open(os.path.join(HERE, 'properties.jsonl'))]
    checks = []
    for pid in ids:
        if pid not in CLAIMED:
            continue
        c = CLAIMED[pid]
        checks.append({
            'property_id': pid,
            'quick_cmd': f'./check {pid} --tier quick',
            'thorough_cmd': f'./check {pid} --tier thorough',
            'evidence_file': f'evidence/{pid}.json',
            'replay_cmd_template': f'./check {pid} --replay {{path}}',
            'engine': 'lean4+correspondence',
            'level_claimed': {'category': 'proof', 'text': c['text'], 'design_ref': c['design']},
            'level_note': c['note'],
            'technique': c['technique'],
        })
    na = [{'property_id': p, 'reason': NA.get(p, NOT_YET)} for p in ids if p not in CLAIMED]
    fixes = [l.split()[2] for l in open(os.path.join(HERE, 'KNOWN_FINDINGS.txt'))
             if l.startswith('fixed:')]
    man = {
        'version': 1,
        'setup_cmd': 'cd lean && lake build driver Emg3dVerif.All',
        'hooks': {
            'guard': 'EMG3D_VERIF',
            'enable': 'none needed: the harness installs its recorders by attribute replacement on '
                      'the imported emg3d modules (no guarded code in /repo)',
            'baseline_off_cmd': BASE,
            'source_commits': [],
            'add_only': True,
        },
        'engines': [{
            'name': 'lean4+correspondence', 'path': 'lean/ + harness/',
            'serves_properties': sorted(CLAIMED),
            'kind_free_text': 'Lean 4 models and theorems (lean/Emg3dVerif), compiled model driver '
                              '(lean/Driver.lean), Python correspondence harness (harness/)'}],
        'checks': checks,
        'not_applicable': na,
        'notes': 'fix: commits in /repo (genuine defects repaired): ' + ', '.join(fixes) +
                 '; see KNOWN_FINDINGS.txt and DESIGN.md §6.',
    }
    json.dump(man, open(os.path.join(HERE, 'MANIFEST.json'), 'w'), indent=1)
    print('claimed', sorted(CLAIMED), 'n/a', len(na))

if __name__ == '__main__':
    main()
