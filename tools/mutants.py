#!/usr/bin/env python3
"""Mutation smoke test of the checks (a gap finder, not evidence).

For every property, single-token mutants of the anchored source lines are made in scratch
worktrees of /repo's HEAD; the property's quick check runs against the mutant
(EMG3D_REPO); mutants the check does not flag are then run through the repository's own
test-suite.  A mutant that survives BOTH is printed for inspection: it is either an
equivalent / harmless change or a gap of the check.

usage: tools/mutants.py [--per N] [--lanes L] [--seed S] [ids...]   -> seeded/MUTANTS.txt
"""
import os, re, sys, json, random, subprocess, argparse, shutil
from concurrent.futures import ThreadPoolExecutor

HERE = os.path.dirname(os.path.dirname(os.path.abspath(__file__)))
PY = '/venv/bin/python'

OPS = [
    (r' \+ ', ' - '), (r' - ', ' + '), (r' \* ', ' / '), (r' / ', ' * '),
    (r' < ', ' <= '), (r' <= ', ' < '), (r' > ', ' >= '), (r' >= ', ' > '),
    (r' == ', ' != '), (r' != ', ' == '),
    (r'\bTrue\b', 'False'), (r'\bFalse\b', 'True'),
    (r' and ', ' or '), (r' or ', ' and '), (r'\bnot ', ''),
    (r'\.copy\(\)', ''), (r' \+= ', ' = '), (r' -= ', ' += '), (r' \*= ', ' /= '),
    (r'\babs\(', '('), (r'\bmin\(', 'max('), (r'\bmax\(', 'min('),
    (r'\b0\.5\b', '0.25'), (r'\b2\b', '3'), (r'\b1\b', '2'), (r'\b0\b', '1'),
    (r'\bix\b', 'iy'), (r'\biy\b', 'iz'), (r'\biz\b', 'ix'),
    (r'\bhx\b', 'hy'), (r'\bhy\b', 'hz'), (r'\bhz\b', 'hx'),
    (r'_x\b', '_y'), (r'_y\b', '_z'), (r'_z\b', '_x'),
    (r'\bfx\b', 'fy'), (r'\bfy\b', 'fz'), (r'\bfz\b', 'fx'),
    (r'\[0\]', '[1]'), (r'\[1\]', '[2]'), (r'\[-1\]', '[-2]'), (r'\[2\]', '[0]'),
    (r'\bnp\.any\b', 'np.all'), (r'\bnp\.all\b', 'np.any'),
    (r'\bis not None\b', 'is None'), (r'\bis None\b', 'is not None'),
    (r"'F'", "'C'"), (r'\bnx\b', 'ny'), (r'\bny\b', 'nz'), (r'\bnz\b', 'nx'),
]


def anchors():
    out = {}
    for l in open(os.path.join(HERE, 'properties.jsonl')):
        d = json.loads(l)
        rs = []
        for m in d['anchors']['mechanism']:
            mm = re.match(r'(emg3d/\S+?\.py):(\d+)-(\d+)', m['where'])
            if mm:
                rs.append((mm.group(1), int(mm.group(2)), int(mm.group(3))))
        out[d['id']] = rs
    return out


def candidates(wt, ranges, rng, n):
    """n random (file, line number, new line) single-token mutants in the ranges."""
    pool = []
    for f, a, b in ranges:
        lines = open(os.path.join(wt, f)).read().split('\n')
        indoc = False
        for i, ln in enumerate(lines, 1):
            st = ln.strip()
            if st.count('"""') % 2 == 1:
                indoc = not indoc
                continue
            if indoc or not (a <= i <= b) or not st or st.startswith('#') \
                    or st.startswith(('def ', 'class ', '@', 'import ', 'from ',
                                      'raise ', 'msg', 'warnings', 'f"', "f'",
                                      '"', "'", 'var.cprint', 'log')):
                continue
            code = ln.split('  # ')[0]
            for k, (pat, rep) in enumerate(OPS):
                for m in re.finditer(pat, code):
                    new = code[:m.start()] + re.sub(pat, rep, m.group(0)) + \
                        code[m.end():]
                    if new != code:
                        pool.append((f, i, ln, new + ln[len(code):], k))
    rng.shuffle(pool)
    seen, out = set(), []
    for c in pool:
        if (c[0], c[1]) in seen:
            continue
        seen.add((c[0], c[1]))
        out.append(c)
        if len(out) == n:
            break
    return out


def sh(cmd, cwd=None, env=None, timeout=3600):
    try:
        r = subprocess.run(cmd, cwd=cwd, env=env, capture_output=True, text=True,
                           timeout=timeout)
        return r.returncode, r.stdout + r.stderr
    except subprocess.TimeoutExpired:
        return 124, 'timeout'


def lane(k, jobs, results):
    wt = f'/tmp/mutwt_{k}'
    sh(['git', '-C', '/repo', 'worktree', 'remove', '--force', wt])
    sh(['git', '-C', '/repo', 'worktree', 'add', '--detach', wt, 'HEAD'])
    env = dict(os.environ, EMG3D_REPO=wt, NUMBA_CACHE_DIR=f'{wt}/.nbcache',
               PYTHONPATH=wt)
    for (pid, f, i, old, new, op) in jobs:
        path = os.path.join(wt, f)
        src = open(path).read().split('\n')
        if src[i-1] != old:
            continue
        src[i-1] = new
        open(path, 'w').write('\n'.join(src))
        rc, _ = sh([PY, '-m', 'py_compile', path])
        rec = {'id': pid, 'file': f, 'line': i, 'old': old.strip(),
               'new': new.strip()}
        if rc != 0:
            rec['result'] = 'does-not-compile'
        else:
            rc, out = sh([os.path.join(HERE, 'check'), pid], env=env, timeout=1500)
            sig = re.search(r'^  # (.{0,110})', out, re.M)
            rec['check_exit'] = rc
            rec['sig'] = sig.group(1) if sig else ''
            if rc == 0:
                rc2, out2 = sh([PY, '-m', 'pytest', '-x', '-q', '-p',
                                'no:cacheprovider', '--timeout=900',
                                '--deselect', 'tests/test_cli.py::test_main',
                                '--deselect', 'tests/test_cli.py::test_main2',
                                'tests/'], cwd=wt, env=env, timeout=2400)
                tail = out2.strip().split('\n')[-1][:100]
                rec['pytest'] = 'passes' if rc2 == 0 else 'fails'
                rec['pytest_tail'] = tail
                rec['result'] = ('SURVIVES-BOTH' if rc2 == 0
                                 else 'missed-by-check-killed-by-tests')
            elif rc == 1:
                rec['result'] = 'killed-by-check'
            else:
                rec['result'] = f'check-exit-{rc}'
        sh(['git', '-C', wt, 'checkout', '--', '.'])
        results.append(rec)
        print(json.dumps(rec), flush=True)
    sh(['git', '-C', '/repo', 'worktree', 'remove', '--force', wt])


def main():
    ap = argparse.ArgumentParser()
    ap.add_argument('--per', type=int, default=10)
    ap.add_argument('--lanes', type=int, default=4)
    ap.add_argument('--seed', type=int, default=0)
    ap.add_argument('ids', nargs='*')
    a = ap.parse_args()
    rng = random.Random(a.seed)
    anc = anchors()
    ids = a.ids or sorted(anc)
    jobs = []
    for pid in ids:
        for (f, i, old, new, op) in candidates('/repo', anc[pid], rng, a.per):
            jobs.append((pid, f, i, old, new, op))
    rng.shuffle(jobs)
    results = []
    with ThreadPoolExecutor(a.lanes) as ex:
        list(ex.map(lambda k: lane(k, jobs[k::a.lanes], results), range(a.lanes)))
    out = os.path.join(HERE, 'seeded', 'MUTANTS.txt')
    with open(out, 'a') as fh:
        for r in sorted(results, key=lambda r: (r['id'], r['file'], r['line'])):
            fh.write(json.dumps(r) + '\n')
    from collections import Counter
    print(Counter(r['result'] for r in results))


if __name__ == '__main__':
    main()
