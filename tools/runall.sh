#!/bin/bash
# run every claimed check on the current tree (evidence is rewritten); usage: tools/runall.sh [tier] [jobs]
cd "$(dirname "$0")/.."
tier=${1:-quick}; jobs=${2:-4}
ids=$(python3 -c "import json;print(' '.join(c['property_id'] for c in json.load(open('MANIFEST.json'))['checks']))")
mkdir -p .cache/runall
(cd lean && lake build driver >/dev/null 2>&1)
echo $ids | tr ' ' '\n' | xargs -P $jobs -I{} sh -c "./check {} --tier $tier > .cache/runall/{}.log 2>&1; echo {} exit=\$? \$(tail -1 .cache/runall/{}.log)"
