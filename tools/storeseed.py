#!/usr/bin/env python3
"""storeseed.py <ID> <k> <caught-by text>: copy a verified seeded change into /verif/seeded/<ID>-<k>/."""
import sys, os, json, shutil, re
ID, K = sys.argv[1], sys.argv[2]
caught = sys.argv[3] if len(sys.argv) > 3 else ''
RND = {'round2': 2, 'round3': 3, 'round4': 4, 'round5': 5, 'round6': 6, 'round7': 7}.get(sys.argv[4] if len(sys.argv) > 4 else '', 1)
src = f'/tmp/seed{RND}_{ID}_out' if RND > 1 else f'/tmp/seed_{ID}_out'
dst = f'/verif/seeded/{ID}-{int(K)+2*(RND-1)+(1 if RND >= 7 else 0)}'   # round 6 stored an extra C05-13
log = open(f'/root/scratch/seedverify/{ID}_r{RND}_{K}.log' if RND > 1 else
           f'/root/scratch/seedverify/{ID}_{K}.log').read()
def g(pat):
    m = re.search(pat, log); return m.group(1) if m else None
ver = {'demo_exit_unchanged_tree': g(r'DEMO_CLEAN_EXIT=(\d+)'), 'git_apply_exit': g(r'APPLY_EXIT=(\d+)'),
       'demo_exit_with_change': g(r'DEMO_SEEDED_EXIT=(\d+)'), 'pytest_with_change': g(r'(\d+ failed, \d+ passed[^\n]*)'),
       'tree': 'scratch worktree of /repo HEAD (with the fix: commits), removed afterwards',
       'cmd': 'seedverify.sh: demo on clean worktree; git apply patch; demo; pytest -q tests/'}
assert ver['demo_exit_unchanged_tree'] == '0' and ver['git_apply_exit'] == '0' and ver['demo_exit_with_change'] not in ('0', None), ver
assert ver['pytest_with_change'] and ver['pytest_with_change'].startswith('2 failed, 263 passed'), ver
os.makedirs(dst, exist_ok=True)
shutil.copy(f'{src}/patch{K}.diff', f'{dst}/patch.diff')
shutil.copy(f'{src}/demo{K}.py', f'{dst}/demo.py')
meta = json.load(open(f'{src}/meta{K}.json'))
meta['verified_by_me'] = ver
meta['caught_by'] = caught
json.dump(meta, open(f'{dst}/meta.json', 'w'), indent=1)
print('stored', dst, ver['pytest_with_change'])
