#!/bin/bash
# run every check against a scratch worktree carrying a property-preserving refactor
# usage: tools/benignrun.sh [name] [jobs]   (expects every check to exit 0)
cd "$(dirname "$0")/.."
name=${1:-refactor-1}; jobs=${2:-5}
WT=/tmp/benign_$name
git -C /repo worktree remove --force $WT 2>/dev/null
git -C /repo worktree add --detach $WT HEAD >/dev/null 2>&1 || exit 9
git -C $WT apply /verif/benign/$name/patch.diff || exit 9
ids=$(python3 -c "import json;print(' '.join(c['property_id'] for c in json.load(open('MANIFEST.json'))['checks']))")
mkdir -p .cache/benign
echo $ids | tr ' ' '\n' | xargs -P $jobs -I{} sh -c "EMG3D_REPO=$WT NUMBA_CACHE_DIR=$WT/.nbcache ./check {} > .cache/benign/{}.log 2>&1; echo {} exit=\$? \$(tail -1 .cache/benign/{}.log)"
git -C /repo worktree remove --force $WT
