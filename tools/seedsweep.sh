#!/bin/bash
# Apply every stored seeded change to /repo in turn, run the check of its property (quick tier),
# undo the change; writes seeded/SWEEP.txt.  /repo must be clean.  usage: tools/seedsweep.sh [ids...]
cd "$(dirname "$0")/.."
if [ -n "$(git -C /repo status --porcelain)" ]; then echo "/repo not clean"; exit 2; fi
out=seeded/SWEEP.txt
[ $# -eq 0 ] && : > $out
for d in seeded/*/; do
  n=$(basename $d); id=${n%-*}
  if [ $# -gt 0 ] && [[ ! " $* " =~ " $n " ]]; then continue; fi
  if ! git -C /repo apply /verif/$d/patch.diff 2>/dev/null; then echo "$n patch-does-not-apply" | tee -a $out; continue; fi
  ./check $id > .cache/sweep_$n.log 2>&1; ec=$?
  git -C /repo checkout -- .
  sig=$(grep -m1 '^  # ' .cache/sweep_$n.log | cut -c5-120)
  echo "$n exit=$ec $(grep -c '^VIOLATION' .cache/sweep_$n.log) violation-lines :: $sig" | tee -a $out
done
# evidence files were overwritten by the seeded runs: regenerate on the clean tree
echo "re-run tools/runall.sh to regenerate evidence on the clean tree"
