#!/bin/bash
# Parallel variant of seedsweep.sh: every lane works in its own scratch worktree of /repo's HEAD
# (EMG3D_REPO points the checks at it), so /repo itself is not touched.
# usage: tools/seedsweep_par.sh [lanes]      writes seeded/SWEEP.txt
cd "$(dirname "$0")/.."
L=${1:-4}
mkdir -p .cache
seeds=(seeded/*/)
for k in $(seq 0 $((L-1))); do
 (
  WT=/tmp/sweepwt_$k
  git -C /repo worktree remove --force $WT 2>/dev/null
  git -C /repo worktree add --detach $WT HEAD >/dev/null 2>&1 || exit 9
  : > .cache/sweep_lane_$k.txt
  i=0
  for d in "${seeds[@]}"; do
    if [ $((i % L)) -eq $k ]; then
      n=$(basename $d); id=${n%-*}
      if ! git -C $WT apply /verif/$d/patch.diff 2>/dev/null; then
        echo "$n patch-does-not-apply" >> .cache/sweep_lane_$k.txt
      else
        EMG3D_REPO=$WT NUMBA_CACHE_DIR=$WT/.nbcache ./check $id > .cache/sweep_$n.log 2>&1; ec=$?
        git -C $WT checkout -- .
        sig=$(grep -m1 '^  # ' .cache/sweep_$n.log | cut -c5-120)
        echo "$n exit=$ec $(grep -c '^VIOLATION' .cache/sweep_$n.log) violation-lines :: $sig" >> .cache/sweep_lane_$k.txt
      fi
    fi
    i=$((i+1))
  done
  git -C /repo worktree remove --force $WT
 ) &
done
wait
cat .cache/sweep_lane_*.txt | sort > seeded/SWEEP.txt
echo "caught: $(grep -c 'exit=1' seeded/SWEEP.txt) of $(wc -l < seeded/SWEEP.txt)"
echo "re-run tools/runall.sh to regenerate evidence on the clean tree"
